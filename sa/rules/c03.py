"""C03 — IR → proto → IR preserves the model; serialization has no side effects."""

from __future__ import annotations

import ast

from ..cfg import CFG
from ..effects import CACHE_FIELDS, Effects
from ..facts import calls_in
from ..index import ClassInfo, FuncInfo, dotted_of, norm, own_nodes, short

PROPERTY = "C03"
RULES = {
    "R1": "purity: the only write to IR state reachable from any serialize function is `value.const_value.name = "
    "value.name` in the initializer loop; IR methods called by the serializer write cache fields only",
    "R2": "IR field agreement: for Model, Graph, Function, Node, Value and Attr, every public attribute the serializer "
    "reads is supplied by the deserializer when it builds that class (constructor argument or later store)",
    "R3": "declare before resolve in _deserialize_graph / deserialize_function (shared with C17-R3)",
    "R6": "an initializer tensor is emitted under the name of its value: every emission of <value>.const_value into the "
          "proto's initializer list is dominated by the unconditional alignment <value>.const_value.name = <value>.name "
          "(the name a tensor happens to carry - shared tensor, tensor named differently at construction - never reaches the proto)",
    "R7": "IR state is authoritative for a proto-backed object (shared with C02-R4): after a whole-message CopyFrom, a "
          "repeated field that the serializer re-writes from the IR object is cleared on every path, so entries removed "
          "from the IR object do not reappear from the copied proto",
    "R8": "no early exit of a writer bypasses a field write (shared with C02-R7): a `return` inside a serialize function "
          "skips no proto field write whose value is independent of what the return's guard tested - e.g. the denotation of "
          "an unknown dimension must still be written",
    "R5": "scope precedence (shared rule S2): every lookup over the deserializer's stack of per-graph name tables lets the "
          "innermost binding win — first hit of a reversed scan, last write of a forward merge, ChainMap of the reversed "
          "stack — so a name that shadows an outer one is bound to the value of its own graph after a round trip",
    "R4": "determinism: no serialize function iterates a set-typed expression",
    "R9": "round trip of function value information below IR version 10 (shared rule S9): the parser of the composite names the serializer builds "
    "({domain}::{function}/{value}) splits at one occurrence of each separator (partition / maxsplit), never with an unbounded "
    "split followed by a length test - value names are free text and routinely contain '/'",
    "R10": "the flags the serializer trusts are exact (shared with C01-R7): serialize_graph_into decides from is_graph_output()/"
    "is_graph_input() which values get a value_info entry; the ownership hooks that maintain those flags count occurrences and are "
    "never filtered by a test on the element",
}
FLOORS = {"R1": 30, "R2": 40, "R3": 2, "R4": 30, "R5": 2, "R6": 1, "R7": 1, "R8": 6, "R9": 2, "R10": 12}
EXPLANATION = (
    "Effect summaries (writes on non-proto, non-fresh objects, class-qualified) of every serialize function; "
    "comparison of the attribute sets read by the serializer and supplied by the deserializer per IR class; "
    "set-iteration scan of the serializer."
)
NOT_DECIDED = "isomorphism of the rebuilt model (node order, connectivity, bytes) — value properties of an execution"
ASSUMPTIONS = ["protobuf messages are not IR state; implicit dispatch through formatting is not followed"]

SERDE = "onnx_ir.serde"
ALLOWED_WRITE = ("TensorBase._name",)  # the tensor's own name (incl. subclasses' setters)

# attributes read by the serializer that the deserializer need not supply, with the reason
READ_EXEMPT = {
    ("Model", "opset_imports"): "view of graph.opset_imports, which deserialize_model fills",
    ("Function", "doc_string"): "delegates to the function's graph, built with doc_string=",
    ("Function", "opset_imports"): "delegates to the function's graph, built with opset_imports=",
    ("Function", "metadata_props"): "delegates to the function's graph, built with metadata_props=",
    ("Function", "inputs"): "delegates to the function's graph inputs",
    ("Function", "outputs"): "delegates to the function's graph outputs",
    ("Graph", "opset_imports"): "written by deserialize_model/deserialize_function through the graph",
    ("Value", "meta"): "quantization annotations are stored through value.meta[...] by _deserialize_quantization_annotation",
    ("Attr", "type"): "positional constructor argument of every Attr* helper",
    ("Attr", "value"): "positional constructor argument of every Attr* helper",
    ("Attr", "name"): "positional constructor argument of every Attr* helper",
    ("Attr", "ref_attr_name"): "positional argument of RefAttr",
}


def ser_funcs(ctx) -> list[FuncInfo]:
    m = ctx.repo.module(SERDE)
    out = [f for f in m.all_funcs if f.cls is None and f.parent is None and (
        f.name.startswith(("serialize_", "_serialize_", "_fill_in_value", "_maybe_add_quant", "_should_create", "_remove_trailing")) or f.name == "to_proto")]
    ctx.require(len(out) >= 30, f"only {len(out)} serialize functions found")
    return out


def rule_r1(ctx, ef: Effects):
    funcs = ser_funcs(ctx)
    keys = {f.key for f in funcs}
    allowed_seen = 0
    for f in funcs:
        cfg, per = ef.events(f)
        bad = []
        for nid, evs in per.items():
            for e in evs:
                if e.kind != "M" or not (e.tags - {None}):
                    continue
                if e.callee is not None and e.callee.key in keys:
                    continue  # checked in that serialize function
                q = set(e.qfields) or set(e.fields)
                if q and all(x in ALLOWED_WRITE for x in q):
                    st = cfg.nodes[nid].ast
                    ok = isinstance(st, ast.Assign) and norm(st.targets[0]).endswith(".const_value.name") and \
                        norm(st.value) == norm(st.targets[0]).replace(".const_value.name", ".name")
                    if ok:
                        allowed_seen += 1
                        continue
                bad.append((cfg.nodes[nid], e, sorted(q)))
        ctx.check("R1", f"{f.local}: writes no IR state", not bad, f, bad[0][0].ast if bad else f.node,
                  f"serialization writes IR state: {bad[0][1].desc if bad else ''} (fields {bad[0][2] if bad else ''}) — "
                  "serializing twice can give different protos, or the model is changed by being saved",
                  how="M events of the function on non-proto, non-fresh receivers; callee summaries for IR methods",
                  construct=short(bad[0][0].ast) if bad else None)
    ctx.check("R1", "the one allowed write (tensor name alignment) is present exactly once", allowed_seen == 1,
              ctx.repo.module(SERDE), None, f"found {allowed_seen} tensor-name alignment statements",
              how="statement form `<v>.const_value.name = <v>.name`", symbol=f"{SERDE}:serialize_graph_into",
              construct=f"allowed write count {allowed_seen}", nontrivial=False)


def _ir_class_of(ctx, f: FuncInfo, e: ast.expr) -> set[str]:
    out = set()
    for c in ctx.typer.recv_classes(f, e):
        n = c.name
        if n.endswith("Protocol"):
            n = n[: -len("Protocol")]
        n = {"Attribute": "Attr", "ReferenceAttribute": "Attr", "GraphView": "Graph"}.get(n, n)
        out.add(n)
    return out


CLASSES = ("Model", "Graph", "Function", "Node", "Value", "Attr")


def rule_r2(ctx):
    repo = ctx.repo
    core = repo.module("onnx_ir._core")
    reads: dict[str, dict[str, tuple]] = {c: {} for c in CLASSES}
    for f in ser_funcs(ctx):
        scopes = [f]
        for g in scopes:
            for n in own_nodes(g.node):
                if isinstance(n, ast.Attribute) and isinstance(n.ctx, ast.Load) and not n.attr.startswith("_"):
                    par = getattr(n, "_parent", None)
                    if isinstance(par, ast.Call) and par.func is n:
                        continue  # method call, not a data attribute
                    for cn in _ir_class_of(ctx, g, n.value):
                        if cn in reads:
                            reads[cn].setdefault(n.attr, (g, n))
            for c in calls_in(g):
                if dotted_of(c.func) == "getattr" and len(c.args) >= 2 and isinstance(c.args[1], ast.Constant):
                    for cn in _ir_class_of(ctx, g, c.args[0]):
                        if cn in reads:
                            reads[cn].setdefault(c.args[1].value, (g, c))
    # what the deserializer supplies
    supplied: dict[str, set[str]] = {c: set() for c in CLASSES}
    dser = [f for f in repo.module(SERDE).all_funcs if "deserialize" in f.name or f.name.startswith(("_declare", "_resolve"))]
    ctor_names = {"Model": ("Model",), "Graph": ("Graph",), "Function": ("Function",), "Node": ("Node",), "Value": ("Value",),
                  "Attr": ("Attr", "RefAttr", "AttrInt64", "AttrFloat32", "AttrString", "AttrInt64s", "AttrFloat32s", "AttrStrings",
                           "AttrTensor", "AttrGraph", "AttrTensors", "AttrGraphs", "AttrTypeProto", "AttrTypeProtos")}  # fmt: skip
    for f in dser:
        for c in calls_in(f):
            d = (dotted_of(c.func) or "").split(".")[-1]
            for cn, names in ctor_names.items():
                if d in names:
                    target = core.classes.get(d)
                    init = repo.lookup(target, "__init__") if isinstance(target, ClassInfo) else core.functions.get(d)
                    params = init.params[1:] if isinstance(init, FuncInfo) and init.cls is not None else (init.params if isinstance(init, FuncInfo) else [])
                    for i, a in enumerate(c.args):
                        if i < len(params):
                            supplied[cn].add(params[i])
                    for k in c.keywords:
                        if k.arg:
                            supplied[cn].add(k.arg)
        for n in own_nodes(f.node):
            tgt = None
            if isinstance(n, ast.Assign) and isinstance(n.targets[0], ast.Attribute):
                tgt = n.targets[0]
            elif isinstance(n, ast.Call) and isinstance(n.func, ast.Attribute) and n.func.attr in ("update", "append", "extend", "add") \
                    and isinstance(n.func.value, ast.Attribute):
                tgt = n.func.value
            elif isinstance(n, ast.Assign) and isinstance(n.targets[0], ast.Subscript) and isinstance(n.targets[0].value, ast.Attribute):
                tgt = n.targets[0].value
            if tgt is not None:
                for cn in _ir_class_of(ctx, f, tgt.value):
                    if cn in supplied:
                        supplied[cn].add(tgt.attr)
    ctx.tables["serializer_reads"] = {k: sorted(v) for k, v in reads.items()}
    ctx.tables["deserializer_supplies"] = {k: sorted(v) for k, v in supplied.items()}
    alias = {"graph": {"graph"}, "functions": {"functions"}, "attributes": {"attributes"}, "inputs": {"inputs"}, "outputs": {"outputs", "num_outputs"},
             "initializers": {"initializers"}}  # fmt: skip
    for cn in CLASSES:
        ctx.require(len(reads[cn]) >= 3, f"serializer reads of {cn} not recognised")
        for attr, (g, node) in sorted(reads[cn].items()):
            why = READ_EXEMPT.get((cn, attr))
            if why:
                ctx.ob("R2", f"{cn}.{attr} (read in {g.local})", True, nontrivial=False, how=f"exempt: {why}")
                continue
            ok = attr in supplied[cn] or bool(alias.get(attr, set()) & supplied[cn])
            ctx.check("R2", f"{cn}.{attr} (read in {g.local}) is supplied by the deserializer", ok, g, node,
                      f"the serializer writes {cn}.{attr} into the proto but the deserializer never sets it when it builds a {cn}: "
                      "the attribute is lost on an IR → proto → IR round trip",
                      how="constructor keywords/positionals and later stores in the deserialize functions",
                      construct=f"{cn}.{attr} not supplied")


def rule_r4(ctx):
    for f in ser_funcs(ctx):
        sets: set[str] = set()
        for n in own_nodes(f.node):
            if isinstance(n, ast.Assign) and isinstance(n.targets[0], ast.Name):
                v = n.value
                if isinstance(v, (ast.Set, ast.SetComp)) or (isinstance(v, ast.Call) and dotted_of(v.func) in ("set", "frozenset")):
                    sets.add(n.targets[0].id)
            if isinstance(n, ast.AnnAssign) and isinstance(n.target, ast.Name) and norm(n.annotation).startswith(("set[", "frozenset[", "AbstractSet[")):
                sets.add(n.target.id)
        bad = []
        for n in own_nodes(f.node):
            it = n.iter if isinstance(n, (ast.For, ast.comprehension)) else None
            if it is None:
                continue
            if isinstance(it, ast.Call) and dotted_of(it.func) == "sorted":
                continue
            if isinstance(it, (ast.Set, ast.SetComp)) or (isinstance(it, ast.Call) and dotted_of(it.func) in ("set", "frozenset")) \
                    or (isinstance(it, ast.Name) and it.id in sets):
                bad.append(n)
        ctx.check("R4", f"{f.local}: no iteration over a set", not bad, f, bad[0] if bad else f.node,
                  "proto content is emitted in set iteration order, which varies between runs/objects: serializing twice "
                  "can give different protos",
                  how="for/comprehension iterables classified (set literal, set(), set comprehension, set-bound local)")


def rule_r6(ctx, rule="R6", extra=""):
    n = 0
    for f in ser_funcs(ctx):
        emits = []

        def is_init_add(e):
            return isinstance(e, ast.Call) and isinstance(e.func, ast.Attribute) and e.func.attr == "add" \
                and isinstance(e.func.value, ast.Attribute) and e.func.value.attr == "initializer"

        slot_names = {a.targets[0].id for a in own_nodes(f.node) if isinstance(a, ast.Assign) and isinstance(a.targets[0], ast.Name) and is_init_add(a.value)}
        for c in calls_in(f):
            d = dotted_of(c.func) or ""
            if d.endswith("serialize_tensor_into") and c.args and (is_init_add(c.args[0]) or (isinstance(c.args[0], ast.Name) and c.args[0].id in slot_names)):
                src = c.args[1] if len(c.args) > 1 else next((k.value for k in c.keywords if k.arg == "from_"), None)
                emits.append((c, src))
        if not emits:
            continue
        cfg = CFG(f.node)
        for c, src in emits:
            n += 1
            owner = norm(src.value) if isinstance(src, ast.Attribute) and src.attr == "const_value" else None
            aligns = [a for a in own_nodes(f.node) if isinstance(a, ast.Assign) and isinstance(a.targets[0], ast.Attribute) and a.targets[0].attr == "name"
                      and isinstance(a.targets[0].value, ast.Attribute) and a.targets[0].value.attr == "const_value"
                      and owner is not None and norm(a.targets[0].value.value) == owner
                      and isinstance(a.value, ast.Attribute) and a.value.attr == "name" and norm(a.value.value) == owner]
            en = cfg.nodes_containing(c)[0]
            ok = any(cfg.dominates(cfg.node_of(a)[0], en) for a in aligns)
            if not ok and isinstance(c.args[0], ast.Name) and owner is not None:
                # equivalent: the emitted proto's name is overwritten with the value's name right after the emission
                fix = [a for a in own_nodes(f.node) if isinstance(a, ast.Assign) and norm(a.targets[0]) == f"{c.args[0].id}.name"
                       and isinstance(a.value, ast.Attribute) and a.value.attr == "name" and norm(a.value.value) == owner]
                ok = any(cfg.dominates(en, cfg.node_of(a)[0]) and getattr(a, "_parent", None) is getattr(getattr(c, "_parent", None), "_parent", None) for a in fix)
            ctx.check(rule, f"{f.local}: initializer emission is dominated by the name alignment", ok, f, c,
                      "an initializer tensor can be written to the proto under the tensor's own name instead of its value's name "
                      "(alignment missing or conditional): a tensor shared by two initializers, or named differently when it was "
                      "attached, yields duplicate / wrong initializer names and the consumers no longer resolve after a round trip" + extra,
                      how="`<v>.const_value.name = <v>.name` dominates serialize_tensor_into(<proto>.initializer.add(), <v>.const_value)")
    ctx.require(n >= 1, "no initializer emission found in the serializer")


def rule_r5(ctx):
    from ..shared import scope_precedence_sites, scope_stack_functions

    stacks = scope_stack_functions(ctx.repo)
    ctx.tables["scope stack holders"] = {k: v for k, v in sorted(stacks.items())}
    ctx.require(len(stacks) >= 3, f"scope stack of the deserializer not found (holders: {sorted(stacks)})")
    for f, node, form, winner in scope_precedence_sites(ctx.repo):
        ctx.check("R5", f"{f.local}: {form}", winner == "inner", f, node,
                  f"{form}: the OUTER scope's binding wins, so a name that shadows an enclosing graph's name is resolved to "
                  "the enclosing graph's value — connectivity / annotation targets change across IR → proto → IR",
                  how="stack order is outer→inner (append pushes); form of the scan classified (direction × first-hit/last-write)",
                  construct=form)


def run(ctx):
    from . import c01

    c01.rule_r7(ctx, rule="R10", consequence="; the serializer then skips the value_info of a node output that is no longer a graph output, so its type, shape, doc string and metadata are lost by IR -> proto -> IR")
    from ..shared import rule_s9

    rule_s9(ctx, "R9", "the type and shape of that function value are lost by IR -> proto -> IR")
    ef = ctx._shared.get("effects")
    if ef is None:
        ef = ctx._shared["effects"] = Effects(ctx.repo, ctx.typer, tier4=(ctx.tier == "thorough"))
    ef.compute()
    rule_r1(ctx, ef)
    rule_r2(ctx)
    from . import c17

    class _Sub:
        def __init__(s, c):
            s._c, s.repo, s.typer = c, c.repo, c.typer

        def check(s, rule, inst, ok, where, node, detail, **kw):
            if "declared before" in inst or "declares the node" in inst:
                return s._c.check("R3", inst, ok, where, node, detail, **kw)
            return ok

        def require(s, cond, msg):
            return s._c.require(cond, msg)

    c17.rule_r3(_Sub(ctx))
    rule_r4(ctx)
    rule_r5(ctx)
    rule_r6(ctx)
    from . import c02

    c02.rule_r4(ctx, rule="R7")
    c02.rule_r7(ctx, rule="R8")
    c02.rule_type_reader_siblings(ctx, rule="R2")
