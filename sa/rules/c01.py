"""C01 — use-def and ownership links stay consistent under every edit history."""

from __future__ import annotations

import ast
import re

from ..cfg import CFG, walk_shallow
from ..facts import MULTISET_PRESERVING, calls_in, field_writes, is_self_call, is_super_call
from .. import roles
from ..index import ClassInfo, FuncInfo, dotted_of, norm, own_nodes, short

PROPERTY = "C01"
RULES = {
    "R1": "tracked-container completeness: every stdlib base method that writes self.data is overridden "
    "with hook calls on every membership-changing path, disabled, or multiset-preserving; the same "
    "holds for the tracked classes' own methods",
    "R1b": "no inherited method builds a second tracked container sharing the first one's state",
    "R2": "who-may-write: bookkeeping fields are written only by the frozen writer table",
    "R3": "paired updates: Node._inputs stores pair with usage updates; Graph._nodes mutators pair with "
    "node.graph updates; input/output hooks agree; the name setter re-keys initializers; dropped "
    "outputs lose their producer link"
    " ; a use is removed before the new one is added (re-setting an input to the value it already holds keeps the use)",
    "R4": "producer ⟂ input/initializer: a non-None producer is only stored after testing the value's "
    "input/initializer flags, and the input/initializer flag is only set after testing producer()",
    "R5": "integrity of the node container behind Graph._nodes (shared with C11-R3): length and id→box map change "
    "together, every insertion goes through the one splicing primitive, a present value is unlinked before it is "
    "re-linked, the anchor's successor is read after that unlinking, and exactly four link writes splice the new box - "
    "otherwise len(graph), iteration and node.graph disagree about which nodes the graph holds",
    "R8": "no aliasing between validation and commit: where a function first checks every element of a caller-supplied "
    "sequence against a link field (`x.producer() is not None` → reject) and then writes that field per element in a second "
    "loop (`x._producer = self; x._index = i`), the elements are rejected up front unless pairwise distinct - the check of a "
    "repeated element was made before its first occurrence was committed, and its index link can name one position only",
    "R7": "per-occurrence accounting: the ownership hooks (_set_graph / _maybe_unset_graph) count occurrences, so a hook call is "
    "never filtered by a test on the element it is applied to (membership in the other sequence, identity with another "
    "element …): between the hook call and its function no `if` mentions the hook's argument, isinstance dispatch excepted - "
    "a value listed twice and released once keeps its is_graph_input/is_graph_output flag after it left the list",
    "R6": "bookkeeping survives a rejected call (C06's analysis restricted to the use-def / ownership fields): in every "
    "public mutator, no write to a producer link, output index, use list, ownership flag, owning graph, node input/output "
    "tuple or node list precedes a point that can still reject - 'whether the individual calls succeed or raise'",
    "R9": "what is done for every element is done inside the loop over them (shared rule S17): in the IR core, the graph containers, the "
    "linked list and the convenience rewriters, no statement after a `for` loop reads the loop's variable - a detach / unregister / "
    "unlink call one indent level out runs for the last element only and leaves the links of the others half-updated",
    "R10": "the readers answer from the link the writers maintain: the graph collections record the owner of an input, output or "
    "initializer in `Value._graph`, and `Value.graph` reports that link whenever it is set - any other answer (the graph of the "
    "producing node) is given only when `_graph` is None; with the producer's graph first, an output of graph B whose producer lives in "
    "graph A reports A as its graph while it is listed in B.outputs and not in A.outputs (`is_graph_output()` and `graph` contradict "
    "the lists)",
    "R11": "the ownership link outlives every role but the last: each of the three graph collections, when it releases a value, clears "
    "`value._graph` only if the value has neither of the two roles the other collections maintain (graph input, graph output, "
    "initializer) - the statement that clears the link is governed by tests that cover both other role flags (or by the one helper "
    "that tests all three); a test copied from a sibling that names the collection's own flag, which was just cleared, lets an "
    "initializer that is still a graph output lose its graph while it stays listed in the outputs",
    "R12": "what is released is what is removed: in the item methods of the tracked collections (`__delitem__`, `__setitem__`, `pop`), "
    "every read `self.data[<X>]` that finds the element(s) to release uses the very index expression that the removal itself uses "
    "(`super().__delitem__(<K>)`, `super().__setitem__(<K>, …)`, `super().pop(<K>)`) - the parameter as given, not an index computed from it: "
    "`slice(i, i + 1)` is not `i` (for i = -1 it is empty), so the last value leaves the list without being released and keeps its role "
    "flag, its graph link and its reference count",
    "R13": "a use is registered under the position the value has among the node's inputs: in the methods of Node, the index handed to "
    "`_add_usage` / `_remove_usage` is a parameter of the method (the position that is replaced) or the counter of `enumerate(<the inputs>)` "
    "over the inputs as they are - not over a filtered or re-packed sequence (`enumerate(filter(None, inputs))`, a comprehension with a "
    "condition, a slice): with an omitted input in front, every later value would list a use at a position where the node holds another "
    "value (or none), and replace_input_with / replace_all_uses_with then address the wrong slot",
}
FLOORS = {"R1": 30, "R1b": 4, "R2": 70, "R3": 10, "R4": 4, "R5": 8, "R6": 40, "R7": 12, "R8": 1, "R9": 40, "R10": 1, "R11": 3, "R12": 3, "R13": 3}
EXPLANATION = (
    "Enumerates every method of collections.UserList/UserDict (parsed from the interpreter's own "
    "source) that writes self.data and checks how GraphInputs/GraphOutputs/GraphInitializers resolve "
    "it; checks every write site of the bookkeeping fields against a frozen writer table; checks "
    "pairing of the two sides of each relation inside the writers (CFG path queries)."
)
NOT_DECIDED = (
    "that each writer computes the right value in every state (reference-counter arithmetic, the "
    "index a use is registered under); the rules are necessary conditions of the bidirectional invariant"
)
ASSUMPTIONS = [
    "no monkey-patching of the analysed classes other than the journaling module's (C20)",
    "__slots__ classes have no other fields; assert does not reject",
]

HOOK_ADD = "_set_graph"
HOOK_DEL = "_maybe_unset_graph"

# effect of a primitive on self.data -> hooks needed
_MUT_EFFECT = {
    "append": "add", "insert": "add", "extend": "add", "update": "add", "setdefault": "add",
    "pop": "del", "remove": "del", "clear": "del", "popitem": "del",
    "sort": None, "reverse": None,
}  # fmt: skip


def _data_write_effects(f: FuncInfo, selfname="self"):
    """[(stmt, effect)] for direct writes of ``self.data`` in f; effect in add/del/both/None."""
    out = []
    for w in field_writes(f):
        if w.field != "data" or not (isinstance(w.recv, ast.Name) and w.recv.id == selfname):
            continue
        if w.kind == "store":
            if isinstance(w.stmt.value, (ast.Dict, ast.List)) and not (w.stmt.value.keys if isinstance(w.stmt.value, ast.Dict) else w.stmt.value.elts):
                eff = None if f.name == "__init__" else "del"  # binding an empty container adds no member
            else:
                eff = "add" if f.name == "__init__" else "both"
        elif w.kind == "substore":
            eff = "both"
        elif w.kind in ("subdel", "del"):
            eff = "del"
        elif w.kind in ("aug", "subaug"):
            op = w.stmt.op
            eff = "add" if isinstance(op, ast.Add) else "both"
        elif w.kind == "mutcall":
            eff = _MUT_EFFECT.get(w.method, "both")
        else:
            eff = "both"
        if f.name == "__init__" and eff is not None:
            eff = "add"  # a fresh container can only gain members
        out.append((w.stmt, eff))
    return out


def _is_clone_method(f: FuncInfo) -> bool:
    for n in own_nodes(f.node):
        if isinstance(n, ast.Call):
            t = norm(n)
            if "__dict__.update(self.__dict__)" in t or t.startswith("copy.copy(self"):
                return True
    return False


def _stdlib_writer_effect(f: FuncInfo):
    """Combined effect of a stdlib method on self.data (None if it does not write it)."""
    effs = {e for _, e in _data_write_effects(f)}
    if not effs:
        return "none"
    if effs <= {None}:
        return None
    effs.discard(None)
    if effs == {"add"}:
        return "add"
    if effs == {"del"}:
        return "del"
    return "both"


def _hook_nodes(cfg: CFG, f: FuncInfo, hook: str) -> set[int]:
    """CFG nodes that count as 'the hook ran': the call itself, an enclosing for-loop header,
    or an enclosing ``if <k> in self.data`` test."""
    ids: set[int] = set()
    for call in calls_in(f):
        if not is_self_call(call, hook):
            continue
        for n in cfg.nodes_containing(call):
            ids.add(n.id)
        p = getattr(call, "_parent", None)
        while p is not None and p is not f.node:
            if isinstance(p, (ast.For, ast.AsyncFor)):
                for n in cfg.node_of(p):
                    if n.kind == "iter":
                        ids.add(n.id)
            elif isinstance(p, ast.If):
                t = norm(p.test)
                params = set(f.params)
                none_test = (
                    isinstance(p.test, ast.Compare) and len(p.test.ops) == 1
                    and isinstance(p.test.ops[0], ast.IsNot) and isinstance(p.test.left, ast.Name)
                    and p.test.left.id in params and norm(p.test.comparators[0]) == "None"
                )
                if " in self.data" in t or " in self" in t or none_test:
                    for n in cfg.node_of(p):
                        if n.kind == "test":
                            ids.add(n.id)
            elif isinstance(p, (ast.ListComp, ast.GeneratorExp, ast.SetComp, ast.DictComp)):
                pass
            p = getattr(p, "_parent", None)
    return ids


def _covered(cfg: CFG, f: FuncInfo, stmt: ast.AST, hook: str) -> bool:
    """Every entry→stmt→normal-exit path runs ``self.<hook>(…)``."""
    H = _hook_nodes(cfg, f, hook)
    S = cfg.nodes_containing(stmt) or cfg.node_of(stmt)
    if not S:
        return False
    for s in S:
        if s.id in H:
            continue
        before = cfg.all_paths_through(cfg.entry, H, {s.id}, exc=False)
        after = cfg.all_paths_through(s, H, {cfg.exit.id}, exc=False)
        if not (before or after):
            return False
    return True


def _tracked_classes(ctx):
    m = ctx.repo.module("onnx_ir._graph_containers")
    out = []
    for c in m.classes.values():
        a = ctx.repo.lookup(c, HOOK_ADD)
        d = ctx.repo.lookup(c, HOOK_DEL)
        if isinstance(a, FuncInfo) and isinstance(d, FuncInfo):
            if not a.is_abstract_stub() and not d.is_abstract_stub():
                out.append(c)
    ctx.require(len(out) >= 3, "fewer than 3 tracked containers with both hooks found")
    return out


def _membership_changes(ctx, c: ClassInfo, f: FuncInfo):
    """[(stmt, effect)] membership-changing statements in a package method of a tracked class."""
    out = list(_data_write_effects(f))
    for call in calls_in(f):
        if is_super_call(call):
            h = ctx.repo.lookup(c, call.func.attr, after=f.cls)
            if isinstance(h, FuncInfo) and h.module.external:
                eff = _stdlib_writer_effect(h)
                if eff not in ("none", None):
                    out.append((call, eff))
    return out


def rule_r1(ctx):
    repo = ctx.repo
    seen_methods = set()
    for c in _tracked_classes(ctx):
        ext = [k for k in repo.mro(c) if isinstance(k, ClassInfo) and k.external]
        ctx.require(ext, f"{c.key}: no stdlib container base in the MRO")
        names = {}
        for k in ext:
            for name, f in k.methods.items():
                if _is_clone_method(f):
                    continue
                eff = _stdlib_writer_effect(f)
                if eff != "none":
                    names.setdefault(name, (f, eff))
        ctx.require(len(names) >= 4, f"{c.key}: stdlib self.data writers not recognised")
        for name, (stdf, eff) in sorted(names.items()):
            inst = f"{c.name}.{name} (stdlib {stdf.cls.name}.{name}: {eff or 'permutes only'})"
            hit = repo.lookup(c, name)
            if isinstance(hit, FuncInfo) and hit.module.external:
                ok = eff is None or name in MULTISET_PRESERVING and eff is None
                ctx.check(
                    "R1", inst, ok, c, c.node,
                    f"{c.name} inherits {stdf.cls.name}.{name}, which changes self.data without "
                    f"calling {HOOK_ADD}/{HOOK_DEL}: ownership flags of the affected values go stale",
                    how="resolved to the stdlib method through the MRO",
                    symbol=f"{c.key}.{name}", construct=f"inherited {stdf.cls.key}.{name}",
                )
            elif isinstance(hit, FuncInfo):
                if hit.only_raises():
                    ctx.ob("R1", inst, True, how=f"disabled: {hit.local} only raises")
                else:
                    _check_pkg_method(ctx, c, hit, inst)
                    seen_methods.add((c.key, hit.key))
            else:
                ctx.check("R1", inst, False, c, c.node, f"{name} resolves to {hit!r}", symbol=f"{c.key}.{name}")
        # own methods (not overriding a stdlib writer)
        for k in repo.mro(c):
            if not isinstance(k, ClassInfo) or k.external:
                continue
            for name, f in k.methods.items():
                if (c.key, f.key) in seen_methods or name in (HOOK_ADD, HOOK_DEL):
                    continue
                if repo.lookup(c, name) is not f:
                    continue
                ch = _membership_changes(ctx, c, f)
                if ch:
                    _check_pkg_method(ctx, c, f, f"{c.name}.{name} (own method)")
                else:
                    ctx.ob("R1", f"{c.name}.{name} (own method, no membership change)", True, nontrivial=False)


def _check_pkg_method(ctx, c: ClassInfo, f: FuncInfo, inst: str):
    changes = _membership_changes(ctx, c, f)
    if not changes:
        # no direct membership change: fine when the work is delegated to the container's own tracked API
        # (self.update(...), self[k] = v, del self[k], self.append(...)), which is checked on its own
        deleg = [x for x in calls_in(f) if isinstance(x.func, ast.Attribute) and isinstance(x.func.value, ast.Name) and x.func.value.id == "self"]
        subs = [n for n in own_nodes(f.node) if isinstance(n, (ast.Assign, ast.Delete))
                and any(isinstance(t, ast.Subscript) and isinstance(t.value, ast.Name) and t.value.id == "self"
                        for t in (n.targets if hasattr(n, "targets") else []))]
        ctx.check(
            "R1", inst, bool(deleg or subs), f, f.node,
            "override neither delegates to the base writer / the tracked API nor is disabled — cannot classify",
            how="delegates to the container's own tracked methods (resolved and checked separately)",
        )
        return
    cfg = CFG(f.node)
    ok_all = True
    for stmt, eff in changes:
        need = {"add": [HOOK_ADD], "del": [HOOK_DEL], "both": [HOOK_ADD, HOOK_DEL], None: []}[eff]
        for hook in need:
            if not _covered(cfg, f, stmt, hook):
                ok_all = False
                ctx.violation(
                    "R1", f, stmt,
                    f"membership change ({eff}) without self.{hook}() on some path through it",
                )
    ctx.ob("R1", inst, ok_all, how=f"{len(changes)} membership change(s), CFG path coverage by hook calls")


def rule_r1b(ctx):
    repo = ctx.repo
    for c in _tracked_classes(ctx):
        for k in repo.mro(c):
            if not (isinstance(k, ClassInfo) and k.external):
                continue
            for name, f in k.methods.items():
                if not _is_clone_method(f):
                    continue
                hit = repo.lookup(c, name)
                inherited = isinstance(hit, FuncInfo) and hit.module.external
                ctx.check(
                    "R1b", f"{c.name}.{name}", not inherited, c, c.node,
                    f"{c.name} inherits {k.name}.{name}, which clones the instance state without "
                    "running the hooks: a second tracked container shares the graph and the counters",
                    how="stdlib method copies __dict__ / copy.copy(self)",
                    symbol=f"{c.key}.{name}", construct=f"inherited {k.key}.{name}",
                )


# --------------------------------------------------------------------------------- R2
# (class key, field) -> allowed writer functions (local names, module implied by prefix)
_V = "onnx_ir._core:Value"
_N = "onnx_ir._core:Node"
_G = "onnx_ir._core:Graph"
_IO = "onnx_ir._graph_containers:_GraphIO"
_GI = "onnx_ir._graph_containers:GraphInitializers"
_DL = "onnx_ir._linked_list:DoublyLinkedSet"
_LB = "onnx_ir._linked_list:_LinkBox"
_HOOKS = {
    "onnx_ir._graph_containers:GraphInputs._set_graph",
    "onnx_ir._graph_containers:GraphInputs._maybe_unset_graph",
    "onnx_ir._graph_containers:GraphOutputs._set_graph",
    "onnx_ir._graph_containers:GraphOutputs._maybe_unset_graph",
    "onnx_ir._graph_containers:GraphInitializers._set_graph",
    "onnx_ir._graph_containers:GraphInitializers._maybe_unset_graph",
}
WRITERS: dict[tuple[str, str], set[str]] = {
    (_V, "_graph"): _HOOKS | {"onnx_ir._core:Value.__init__"},
    (_V, "_is_graph_input"): {k for k in _HOOKS if "GraphInputs" in k} | {"onnx_ir._core:Value.__init__"},
    (_V, "_is_graph_output"): {k for k in _HOOKS if "GraphOutputs" in k} | {"onnx_ir._core:Value.__init__"},
    (_V, "_is_initializer"): {k for k in _HOOKS if "GraphInitializers" in k} | {"onnx_ir._core:Value.__init__"},
    (_V, "_producer"): {"onnx_ir._core:Value.__init__", "onnx_ir._core:Node._create_outputs", "onnx_ir._core:Node.resize_outputs"},
    (_V, "_index"): {"onnx_ir._core:Value.__init__", "onnx_ir._core:Node._create_outputs", "onnx_ir._core:Node.resize_outputs"},
    (_V, "_uses"): {"onnx_ir._core:Value.__init__", "onnx_ir._core:Value._add_usage", "onnx_ir._core:Value._remove_usage"},
    (_N, "_graph"): {"onnx_ir._core:Node.__init__", "onnx_ir._core:Node.graph.setter"},
    (_N, "graph"): {"onnx_ir._core:Graph.remove"},  # + the adoption hook (role "graph-adoption-hook")
    (_N, "_inputs"): {"onnx_ir._core:Node.__init__", "onnx_ir._core:Node.resize_inputs", "onnx_ir._core:Node.replace_input_with"},
    (_N, "_outputs"): {"onnx_ir._core:Node.__init__", "onnx_ir._core:Node.resize_outputs"},
    (_G, "_nodes"): {"onnx_ir._core:Graph.__init__", "onnx_ir._core:Graph.append", "onnx_ir._core:Graph.extend",
                     "onnx_ir._core:Graph.remove", "onnx_ir._core:Graph.insert_after", "onnx_ir._core:Graph.insert_before"},
    (_G, "_inputs"): {"onnx_ir._core:Graph.__init__"},
    (_G, "_outputs"): {"onnx_ir._core:Graph.__init__"},
    (_G, "_initializers"): {"onnx_ir._core:Graph.__init__", "onnx_ir._core:Graph.register_initializer"},
    (_IO, "_ref_counter"): {k for k in _HOOKS if "Initializers" not in k} | {"onnx_ir._graph_containers:_GraphIO.__init__"},
    (_IO, "_graph"): {"onnx_ir._graph_containers:_GraphIO.__init__"},
    (_GI, "_graph"): {"onnx_ir._graph_containers:GraphInitializers.__init__"},
    (_DL, "_root"): {"onnx_ir._linked_list:DoublyLinkedSet.__init__"},
    (_DL, "_length"): {"onnx_ir._linked_list:DoublyLinkedSet.__init__", "onnx_ir._linked_list:DoublyLinkedSet._insert_one_after", "onnx_ir._linked_list:DoublyLinkedSet.remove"},
    (_DL, "_value_ids_to_boxes"): {"onnx_ir._linked_list:DoublyLinkedSet.__init__", "onnx_ir._linked_list:DoublyLinkedSet._insert_one_after", "onnx_ir._linked_list:DoublyLinkedSet.remove"},
    (_LB, "prev"): {"onnx_ir._linked_list:_LinkBox.__init__", "onnx_ir._linked_list:_LinkBox.erase", "onnx_ir._linked_list:DoublyLinkedSet._insert_one_after"},
    (_LB, "next"): {"onnx_ir._linked_list:_LinkBox.__init__", "onnx_ir._linked_list:_LinkBox.erase", "onnx_ir._linked_list:DoublyLinkedSet._insert_one_after"},
    (_LB, "value"): {"onnx_ir._linked_list:_LinkBox.__init__", "onnx_ir._linked_list:_LinkBox.erase"},
    (_LB, "owning_list"): {"onnx_ir._linked_list:_LinkBox.__init__"},
}  # fmt: skip
# register_initializer "writes" _initializers only through the tracked .add() (a call, not a bypass)
_TRACKED_METHOD_CALLS = {"add", "append", "extend", "insert", "pop", "remove", "clear", "update",
                         "insert_after", "insert_before", "sort", "setdefault", "popitem", "discard"}  # fmt: skip
# class-object patches are the journaling module's (decided by C20)
_CLASS_PATCH_ALLOWED = {"onnx_ir.journaling._wrappers:wrap_ir_classes", "onnx_ir.journaling._wrappers:restore_ir_classes"}


def rule_r2(ctx):
    repo, ty = ctx.repo, ctx.typer
    fields_by_name: dict[str, list[str]] = {}
    # a collection's hook is the one its class resolves to: its own, or the one it inherits from the shared base
    hook_impl: dict[str, str] = {}
    for hk in _HOOKS:
        ck_, meth = hk.rsplit(".", 1)
        impl = repo.lookup(repo.cls(ck_), meth)
        if isinstance(impl, FuncInfo):
            hook_impl[hk] = impl.key
    for (ck, fld) in WRITERS:
        repo.cls(ck)  # anchor
        fields_by_name.setdefault(fld, []).append(ck)
    # fields whose name is protected for exactly one class *and* which no other package class
    # declares: an untyped receiver is then still attributable
    declared: dict[str, set[str]] = {}
    for m in repo.pkg_modules():
        for c in m.classes.values():
            for s in c.slots or ():
                declared.setdefault(s, set()).add(c.key)
            for f in list(c.methods.values()):
                if f.name == "__init__":
                    for w in field_writes(f):
                        if isinstance(w.recv, ast.Name) and w.recv.id == "self":
                            declared.setdefault(w.field, set()).add(c.key)
    for f in repo.all_funcs():
        for w in field_writes(f):
            if w.field not in fields_by_name:
                continue
            rt = ty.type_of(f, w.recv)
            classes = [a[1] for a in rt if a[0] == "cls"]
            is_class_obj = any(a[0] == "type" for a in rt)
            owners = []
            for ck in fields_by_name[w.field]:
                k = repo.cls(ck)
                if any(repo.is_subclass(c, k) or repo.is_subclass(k, c) for c in classes):
                    owners.append(ck)
            if not owners:
                if is_class_obj:
                    ok = f.key in _CLASS_PATCH_ALLOWED
                    ctx.check("R2", f"{f.key}: class patch {norm(w.attr)}", ok, f, w.stmt,
                              "patches a bookkeeping attribute on the class object outside the journaling module",
                              nontrivial=False)
                    continue
                if rt:
                    continue  # typed as something else (proto field, other class)
                cands = fields_by_name[w.field]
                unique = len(cands) == 1 and declared.get(w.field, set()) <= {cands[0]}
                if not unique:
                    # untyped receiver, ambiguous name: attribute by local variable name convention is
                    # not sound; treat as a write to every candidate (fail closed)
                    pass
                owners = list(cands)
                untyped = True
            else:
                untyped = False
            if w.kind == "mutcall" and w.method in _TRACKED_METHOD_CALLS:
                # a call of the tracked container's own API (e.g. self._nodes.append) is a write of
                # the *container*, allowed only for the container's owner functions; calls on
                # Value/Node-typed tracked collections (graph.inputs.append) are the public API.
                if w.field in ("_graph", "graph", "_inputs", "_outputs", "_initializers", "value", "next", "prev", "owning_list") and not (
                    w.field in ("_inputs", "_outputs") and any(o == _N for o in owners)
                ):
                    if not any(o == _G and w.field in ("_initializers",) for o in owners):
                        continue
            allowed = set()
            for ck in owners:
                allowed |= {hook_impl.get(k_, k_) for k_ in WRITERS[(ck, w.field)]}
                if (ck, w.field) == (_N, "graph"):
                    # the adoption hook is recognised by what it does, whatever its private name (sa/roles.py)
                    allowed |= {h.key for h in roles.find(repo, "graph-adoption-hook")}
            ok = f.key in allowed
            if not ok:
                # a private helper that exists only as a part of its callers (every call of it is expanded, sa/inline.py)
                # writes on their behalf: the same write is examined inside each of them
                tc = repo.transparent_callers(f)
                if tc is not None and all(k in allowed or k == f.key or repo.transparent_callers(repo.find_func(k)) is not None
                                          for k in tc if repo.find_func(k) is not None and repo.find_func(k).parent is None):
                    ctx.ob("R2", f"{f.key}: {w.kind} {norm(w.attr)} (helper expanded into {len(tc)} caller(s))", True, nontrivial=False,
                           how="transparent helper: the write is checked in the functions it is expanded into")
                    continue
            ctx.check(
                "R2", f"{f.key}: {w.kind} {norm(w.attr)}" + (" [untyped receiver]" if untyped else ""),
                ok, f, w.stmt,
                f"writes {'/'.join(o.split(':')[1] for o in owners)}.{w.field} outside the writer table "
                f"({w.kind}{' .' + w.method if w.method else ''})",
                how="receiver typed by the resolver" if not untyped else "field name attributable without type",
            )


# --------------------------------------------------------------------------------- R3
def _calls_named(f: FuncInfo, name: str):
    return [c for c in calls_in(f) if isinstance(c.func, ast.Attribute) and c.func.attr == name]


def rule_r3(ctx):
    repo = ctx.repo
    node_cls = repo.cls(_N)
    # (a) stores of Node._inputs
    for f in list(node_cls.methods.values()) + [p[k] for p in node_cls.props.values() for k in p]:
        stores = [w for w in field_writes(f) if w.field == "_inputs" and w.kind == "store"
                  and isinstance(w.recv, ast.Name) and w.recv.id == "self"]  # fmt: skip
        for w in stores:
            val = w.stmt.value
            t = norm(val)
            inst = f"{f.local}: self._inputs = {t}"
            if isinstance(val, ast.BinOp) and isinstance(val.op, ast.Add) and norm(val.left) == "self._inputs" \
                    and isinstance(val.right, ast.BinOp) and norm(val.right.left) == "(None,)":
                ctx.ob("R3", inst, True, how="grows by None entries only")
                continue
            if isinstance(val, ast.Subscript) and norm(val.value) == "self._inputs" and isinstance(val.slice, ast.Slice) \
                    and val.slice.lower is None:
                # shrink: every dropped index must have been detached through replace_input_with(i, None)
                cfg = CFG(f.node)
                loops = [c for c in calls_in(f) if is_self_call(c, "replace_input_with")
                         and len(c.args) == 2 and isinstance(c.args[1], ast.Constant) and c.args[1].value is None]  # fmt: skip
                ok = False
                for c in loops:
                    loop = getattr(c, "_parent", None)
                    while loop is not None and not isinstance(loop, ast.For):
                        loop = getattr(loop, "_parent", None)
                    if loop is None:
                        continue
                    it = loop.iter
                    while isinstance(it, ast.Call) and dotted_of(it.func) in ("reversed", "list", "tuple") and len(it.args) == 1:
                        it = it.args[0]  # the same indices in another order (whether a rejection can interrupt the loop is C06's question)
                    rng = norm(it)
                    if rng.startswith("range(") and norm(val.slice.upper) in rng:
                        ln = [n for n in cfg.node_of(loop) if n.kind == "iter"]
                        sn = cfg.node_of(w.stmt)
                        if ln and sn and cfg.dominates(ln[0], sn[0]):
                            ok = True
                ctx.check("R3", inst, ok, f, w.stmt,
                          "inputs are truncated without detaching the dropped values' uses first",
                          how="loop of replace_input_with(i, None) over the dropped range dominates the store")
                continue
            if f.name == "__init__":
                adds = _calls_named(f, "_add_usage")
                # the stored tuple itself, or a local bound once to it (`own_inputs = self._inputs`)
                srcs = ["self._inputs"] + [a.targets[0].id for a in own_nodes(f.node) if isinstance(a, ast.Assign) and len(a.targets) == 1
                                           and isinstance(a.targets[0], ast.Name) and norm(a.value) == "self._inputs"]
                ok = any(isinstance(getattr(c, "_parent", None), ast.Expr) and any(_in_loop_over(c, s_) for s_ in srcs) for c in adds)
                ctx.check("R3", inst, ok, f, w.stmt,
                          "constructor stores inputs without registering a use on each of them",
                          how="_add_usage in a loop over self._inputs")
                continue
            adds, rems = _calls_named(f, "_add_usage"), _calls_named(f, "_remove_usage")
            ok = bool(adds) and bool(rems)
            if ok:
                # both must be reachable after/before the store on the normal path, guarded only by
                # `is not None` tests
                cfg = CFG(f.node)
                sn = cfg.node_of(w.stmt)
                for c in adds + rems:
                    cn = cfg.nodes_containing(c)
                    if not cn or not sn:
                        ok = False
                    g = getattr(stmt_parent_if(c), "test", None)
                    if g is not None and "is not None" not in norm(g):
                        ok = False
            ctx.check("R3", inst, ok, f, w.stmt,
                      "input tuple is replaced without removing the old value's use and adding the new one's",
                      how="_remove_usage(old) and _add_usage(new) under `is not None` guards only")
            # aliasing: old and new may be the same value, and both calls then address the same
            # (node, index) key — the removal has to come first or the surviving use is deleted
            if ok:
                cfg = CFG(f.node)
                for r in rems:
                    for a in adds:
                        if [norm(x) for x in r.args] != [norm(x) for x in a.args]:
                            continue
                        rn, an = cfg.nodes_containing(r), cfg.nodes_containing(a)
                        guarded = any(" is not " in norm(g.test) and norm(r.func.value) in norm(g.test) and norm(a.func.value) in norm(g.test)
                                      for g in _enclosing_ifs(a) + _enclosing_ifs(r))
                        before = bool(rn and an) and not _reaches(cfg, an[0], rn[0])
                        ctx.check("R3", f"{f.local}: {norm(r)} precedes {norm(a)}", before or guarded, f, a,
                                  "the new value's use is added before the old value's use is removed under the same "
                                  "(node, index) key: when both are the same value the surviving use is deleted",
                                  how="no path runs the add and then the remove (or the two are guarded by `old is not new`)")
    # (b) Graph._nodes mutators pair with node.graph
    graph_cls = repo.cls(_G)
    for f in graph_cls.methods.values():
        for w in field_writes(f):
            if w.field != "_nodes" or w.kind != "mutcall":
                continue
            inst = f"{f.local}: {norm(w.call)}"
            if w.method in ("append", "extend", "insert_after", "insert_before"):
                arg = w.call.args[-1] if w.call.args else None
                hook_names = {h.name for h in roles.find(repo, "graph-adoption-hook")}
                ctx.require(bool(hook_names), "no private Graph method stores `<node>.graph = self` (the adoption hook)")
                ok = _flows_from_set_graph(f, arg, w.call, hook_names)
                ctx.check("R3", inst, ok, f, w.call,
                          f"nodes are linked into the graph without the adoption hook ({'/'.join(sorted(hook_names))}) on them",
                          how="argument data-flows from / is dominated by the adoption hook")
            elif w.method == "remove":
                cfg = CFG(f.node)
                arg = norm(w.call.args[0]) if w.call.args else ""
                clears = [x for x in field_writes(f) if x.field == "graph" and x.kind == "store"
                          and norm(x.recv) == arg and isinstance(x.stmt.value, ast.Constant) and x.stmt.value.value is None]  # fmt: skip
                ok = False
                for x in clears:
                    a, b = cfg.node_of(x.stmt), cfg.nodes_containing(w.call)
                    if a and b and (cfg.dominates(a[0], b[0]) or cfg.dominates(b[0], a[0])) and \
                            _same_block(x.stmt, w.call):
                        ok = True
                ctx.check("R3", inst, ok, f, w.call,
                          "node is unlinked from the graph's sequence without clearing node.graph on the same path",
                          how="`<node>.graph = None` in the same block as the unlink")
    # (c) sibling agreement of the input/output hooks
    gin = repo.cls("onnx_ir._graph_containers:GraphInputs")
    gout = repo.cls("onnx_ir._graph_containers:GraphOutputs")
    for hook in (HOOK_ADD, HOOK_DEL):
        a, b = repo.lookup(gin, hook), repo.lookup(gout, hook)
        ctx.require(isinstance(a, FuncInfo) and isinstance(b, FuncInfo), f"hook {hook} missing on GraphInputs/GraphOutputs")
        if a is b:
            # one shared implementation: the siblings agree by construction, provided the flag it writes is named by a class
            # attribute that differs between the two collections
            names = [x.args[1].attr for x in own_nodes(a.node) if isinstance(x, ast.Call) and dotted_of(x.func) == "setattr" and len(x.args) == 3
                     and isinstance(x.args[1], ast.Attribute) and norm(x.args[1].value) == a.params[0]]
            flags = [(getattr(gin, "class_attrs", {}).get(nm), getattr(gout, "class_attrs", {}).get(nm)) for nm in names]
            ok = bool(flags) and all(isinstance(x, ast.Constant) and isinstance(y, ast.Constant) and x.value == "_is_graph_input" and y.value == "_is_graph_output" for x, y in flags)
            ctx.check("R3", f"GraphInputs.{hook} ~ GraphOutputs.{hook}", ok, a, a.node,
                      "the hook shared by inputs and outputs does not write the role flag each collection names for itself",
                      how="shared hook: setattr(value, self.<class attribute>, …) with the attribute '_is_graph_input' on GraphInputs and '_is_graph_output' on GraphOutputs",
                      construct=f"sibling hooks {hook}")
            continue
        na, nb = _normalise_hook(a, drop_producer=True), _normalise_hook(b, drop_producer=True)
        ok = na == nb
        ctx.check("R3", f"GraphInputs.{hook} ~ GraphOutputs.{hook}", ok, b, b.node,
                  "input and output hooks differ beyond the flag name and the producer check",
                  how="AST equality modulo flag name, message strings and the producer() rejection",
                  construct=f"sibling hooks {hook}")
    # (d) name setter re-keys the initializers
    vcls = repo.cls(_V)
    setter = vcls.props.get("name", {}).get("set")
    ctx.require(setter is not None, "Value.name setter not found")
    pops = [c for c in calls_in(setter) if norm(c.func).endswith("initializers.pop")]
    sets = [w for w in field_writes(setter) if w.field == "initializers" and w.kind == "substore"]
    ok = False
    if pops and sets:
        cfg = CFG(setter.node)
        pn, sn = cfg.nodes_containing(pops[0]), cfg.node_of(sets[0].stmt)
        name_store = [w for w in field_writes(setter) if w.field == "_name" and w.kind == "store"]
        ok = bool(pn and sn and name_store) and cfg.dominates(pn[0], sn[0]) and _same_block(pops[0], sets[0].stmt)
        if ok:
            key = norm(sets[0].stmt.targets[0].slice)
            ok = key == norm(name_store[0].stmt.value) and norm(sets[0].stmt.value) == "self"
    ctx.check("R3", "Value.name setter: pop(old) then initializers[new] = self", ok, setter, setter.node,
              "renaming an initializer does not move its entry to the new key",
              how="pop dominates the keyed store in the same block; key is the new name")
    # (e) dropped outputs lose their producer link; new outputs are created with this node
    for f in node_cls.methods.values():
        for w in field_writes(f):
            if w.field != "_outputs" or w.kind != "store" or f.name == "__init__":
                continue
            val = w.stmt.value
            inst = f"{f.local}: self._outputs = {norm(val)}"
            if isinstance(val, ast.Subscript) and isinstance(val.slice, ast.Slice) and val.slice.lower is None:
                resets = {x.field for x in field_writes(f) if x.field in ("_producer", "_index") and x.kind == "store"
                          and _in_loop_over_slice(x.stmt, norm(val.slice.upper))}  # fmt: skip
                ok = resets == {"_producer", "_index"}
                ctx.check("R3", inst, ok, f, w.stmt,
                          "outputs are truncated without resetting the dropped values' producer/index",
                          how="loop over the dropped slice stores _producer and _index")
            else:
                ok = isinstance(val, ast.BinOp) and norm(val.left) == "self._outputs"
                if ok:
                    ctors = [c for c in calls_in(f) if dotted_of(c.func) == "Value" and c.args and norm(c.args[0]) == "self"]
                    ok = bool(ctors)
                ctx.check("R3", inst, ok, f, w.stmt,
                          "outputs grow by values not constructed with this node as producer",
                          how="appended values are Value(self, index=…)")


def _enclosing_ifs(node):
    out = []
    p = getattr(node, "_parent", None)
    while p is not None and not isinstance(p, ast.FunctionDef):
        if isinstance(p, ast.If):
            out.append(p)
        p = getattr(p, "_parent", None)
    return out


def _reaches(cfg, a, b) -> bool:
    """b is reachable from a on normal edges."""
    return b.id in cfg.reachable_from(a, exc=False)


def stmt_parent_if(node):
    p = getattr(node, "_parent", None)
    while p is not None and not isinstance(p, (ast.If, ast.FunctionDef)):
        p = getattr(p, "_parent", None)
    return p if isinstance(p, ast.If) else None


def _in_loop_over(node, iter_text: str) -> bool:
    p = getattr(node, "_parent", None)
    while p is not None and not isinstance(p, ast.FunctionDef):
        if isinstance(p, ast.For) and iter_text in norm(p.iter):
            return True
        p = getattr(p, "_parent", None)
    return False


def _in_loop_over_slice(stmt, upper: str) -> bool:
    """stmt is inside `for x in <name>` where <name> = self._outputs[upper:] (or the slice itself)."""
    p = getattr(stmt, "_parent", None)
    fn = p
    while fn is not None and not isinstance(fn, ast.FunctionDef):
        fn = getattr(fn, "_parent", None)
    while p is not None and not isinstance(p, ast.FunctionDef):
        if isinstance(p, ast.For):
            it = norm(p.iter)
            if it == f"self._outputs[{upper}:]":
                return True
            if isinstance(p.iter, ast.Name) and fn is not None:
                for n in ast.walk(fn):
                    if isinstance(n, ast.Assign) and any(isinstance(t, ast.Name) and t.id == p.iter.id for t in n.targets):
                        if norm(n.value) == f"self._outputs[{upper}:]":
                            return True
        p = getattr(p, "_parent", None)
    return False


def _same_block(a, b) -> bool:
    def block(n):
        while n is not None and not isinstance(n, ast.stmt):
            n = getattr(n, "_parent", None)
        return getattr(n, "_parent", None)

    return block(a) is block(b)


def _flows_from_set_graph(f: FuncInfo, arg, call, hook_names) -> bool:
    def is_hook(c):
        return any(is_self_call(c, h) for h in hook_names)

    if arg is None:
        return False
    cfg = CFG(f.node)
    b = cfg.nodes_containing(call)
    if not b or not isinstance(arg, ast.Name):
        return False

    def assigns_of(name):
        return [n for n in own_nodes(f.node) if (isinstance(n, ast.Assign) and any(isinstance(t, ast.Name) and t.id == name for t in n.targets))
                or (isinstance(n, ast.AnnAssign) and n.value is not None and isinstance(n.target, ast.Name) and n.target.id == name)]

    def between(first, m, at) -> bool:
        """Statement m can run after `first` and before `at`."""
        fm = cfg.node_of(m)
        return bool(fm) and fm[0].id != first.id and _reaches(cfg, first, fm[0]) and _reaches(cfg, fm[0], at)

    def adopted(name: str, at, depth=0) -> bool:
        """Every element of the collection (or the node) called `name` has been through the hook when `at` runs."""
        if depth > 4:
            return False
        # direct: self.<hook>(node) dominates the call with the same argument
        for c in calls_in(f):
            if is_hook(c) and c.args and norm(c.args[0]) == name:
                a = cfg.nodes_containing(c)
                if a and cfg.dominates(a[0], at):
                    return True
        for n in assigns_of(name):
            a = cfg.node_of(n)
            if not a or not cfg.dominates(a[0], at):
                continue
            # no later rebinding to something else between
            if any(between(a[0], m, at) for m in assigns_of(name) if m is not n):
                continue
            v = n.value
            # through a local built from the hook's results: x = [self.<hook>(n) for n in x]
            if isinstance(v, (ast.ListComp, ast.GeneratorExp)) and isinstance(v.elt, ast.Call) and is_hook(v.elt):
                return True
            # a plain copy of an adopted collection (what `x = helper(...)` leaves once the helper is expanded)
            if isinstance(v, ast.Name) and adopted(v.id, a[0], depth + 1):
                return True
            # a list that only ever receives results of the hook: x = [] … for n in C: x.append(self.<hook>(n))
            if isinstance(v, ast.List) and not v.elts:
                adds = [c for c in calls_in(f) if isinstance(c.func, ast.Attribute) and isinstance(c.func.value, ast.Name) and c.func.value.id == name
                        and c.func.attr in ("append", "extend", "insert")]
                others = [x for x in own_nodes(f.node) if isinstance(x, ast.AugAssign) and isinstance(x.target, ast.Name) and x.target.id == name]
                if adds and not others and all(c.func.attr == "append" and len(c.args) == 1 and isinstance(c.args[0], ast.Call) and is_hook(c.args[0]) for c in adds):
                    return True
        # through a loop that applies the hook to every element of the very collection that is linked afterwards:
        #   for n in nodes: self.<hook>(n)   …   self._nodes.extend(nodes)
        # (the hook hands its argument back, so linking the collection itself links the adopted nodes); the loop runs to
        # completion - no break / continue / return inside - and the collection is not rebound in between
        for lp in (x for x in own_nodes(f.node) if isinstance(x, ast.For) and isinstance(x.target, ast.Name) and norm(x.iter) == name):
            hooked = any(is_hook(c) and c.args and norm(c.args[0]) == lp.target.id for st in lp.body for c in ast.walk(st) if isinstance(c, ast.Call))
            exits = any(isinstance(x, (ast.Break, ast.Continue, ast.Return)) for st in lp.body for x in ast.walk(st))
            a = [x for x in cfg.node_of(lp) if x.kind == "iter"]
            if hooked and not exits and a and cfg.dominates(a[0], at) and not any(between(a[0], m, at) for m in assigns_of(name)):
                return True
        return False

    return adopted(arg.id, b[0])


def _normalise_hook(f: FuncInfo, drop_producer: bool) -> str:
    body = []
    for s in f.node.body:
        if isinstance(s, ast.Expr) and isinstance(s.value, ast.Constant):
            continue
        if drop_producer and isinstance(s, ast.If) and "producer()" in norm(s.test):
            continue
        body.append(s)
    text = ast.dump(ast.Module(body=body, type_ignores=[]), annotate_fields=False)
    for flag in ("_is_graph_input", "_is_graph_output"):
        text = text.replace(flag, "FLAG")
    # message strings do not matter
    import re

    text = re.sub(r"Constant\('(?:[^'\\]|\\.)*'\)", "Constant(STR)", text)
    text = re.sub(r'Constant\("(?:[^"\\]|\\.)*"\)', "Constant(STR)", text)
    return text


# --------------------------------------------------------------------------------- R4
def rule_r4(ctx):
    repo = ctx.repo
    # (i) stores of a non-None producer (a helper that only exists as a part of its callers is examined there)
    for f in repo.live(repo.all_funcs()):
        for w in field_writes(f):
            if w.field != "_producer" or w.kind != "store":
                continue
            v = w.stmt.value
            if isinstance(v, ast.Constant) and v.value is None:
                continue
            inst = f"{f.key}: {norm(w.stmt)}"
            if f.name == "__init__" and isinstance(w.recv, ast.Name) and w.recv.id == "self":
                ctx.ob("R4", inst, True, nontrivial=False, how="fresh value: flags are False by construction")
                continue
            recv = norm(w.recv)
            ok = _guarded_by_flag_test(f, w.stmt, recv)
            ctx.check("R4", inst, ok, f, w.stmt,
                      "a value becomes a node output without testing is_graph_input()/is_initializer() "
                      "(contradicts the producer() tests in GraphInputs._set_graph / GraphInitializers.__setitem__)",
                      how="flag test with a rejecting branch dominates the store (same variable or the iterated collection)")
    # (ii) hooks that set the input / initializer flag
    for ck, flag in (("onnx_ir._graph_containers:GraphInputs", "_is_graph_input"),
                     ("onnx_ir._graph_containers:GraphInitializers", "_is_initializer")):  # fmt: skip
        c = repo.cls(ck)
        hook = repo.lookup(c, HOOK_ADD)
        ctx.require(isinstance(hook, FuncInfo), f"{ck}._set_graph missing")
        in_hook = _producer_test_everywhere(hook)
        if not in_hook:
            # the hook may start by running a side-effect-free checker that holds the test
            first = next((s for s in hook.node.body if not FuncInfo._trivial(s)), None)
            if isinstance(first, ast.Expr) and isinstance(first.value, ast.Call) and isinstance(first.value.func, ast.Attribute) \
                    and norm(first.value.func.value) == "self" and [norm(a) for a in first.value.args] == [hook.params[1]]:
                chk = repo.lookup(c, first.value.func.attr)
                if isinstance(chk, FuncInfo) and not any(True for _ in field_writes(chk)):
                    in_hook = _producer_test_everywhere(chk)
                    if not in_hook and any("producer()" in norm(n.test) for n in own_nodes(chk.node) if isinstance(n, ast.If) and _rejects(n)):
                        ctx.check("R4", f"{c.name}.{chk.name}: the producer() test is on every path", False, chk, chk.node,
                                  f"{chk.local} returns on some path before it has tested producer(): a value that is already owned by the graph "
                                  "(for instance as a graph output, which is never tested) becomes a graph input/initializer although a node produces it",
                                  how="rejecting producer() test on every entry-to-exit path of the checker (CFG)",
                                  construct="producer() test bypassed by an early return")
                        continue
        if in_hook:
            ctx.ob("R4", f"{c.name}._set_graph tests producer()", True, how="rejecting test inside the hook")
            continue
        # otherwise every caller of the hook must test it first
        for k in repo.mro(c):
            if not isinstance(k, ClassInfo) or k.external:
                continue
            for f in k.methods.values():
                if repo.lookup(c, f.name) is not f:
                    continue
                for call in calls_in(f):
                    if not is_self_call(call, HOOK_ADD):
                        continue
                    arg = norm(call.args[0]) if call.args else ""
                    cfg = CFG(f.node)
                    ok = False
                    for n in own_nodes(f.node):
                        if isinstance(n, ast.If) and _rejects(n) and f"{arg}.producer()" in norm(n.test):
                            a, b = [x for x in cfg.node_of(n) if x.kind == "test"], cfg.nodes_containing(call)
                            if a and b and cfg.dominates(a[0], b[0]):
                                ok = True
                    # … or in a side-effect-free checker of the same class run earlier on the same value
                    for pre in calls_in(f):
                        if pre is call or not (isinstance(pre.func, ast.Attribute) and norm(pre.func.value) == "self"):
                            continue
                        chk = repo.lookup(c, pre.func.attr)
                        if not isinstance(chk, FuncInfo) or any(True for _ in field_writes(chk)) or arg not in [norm(x) for x in pre.args]:
                            continue
                        pidx = [norm(x) for x in pre.args].index(arg) + 1
                        pname = chk.params[pidx] if pidx < len(chk.params) else None
                        has = pname is not None and _producer_test_everywhere(chk, f"{pname}.producer()")
                        a, b = cfg.nodes_containing(pre), cfg.nodes_containing(call)
                        if has and a and b and cfg.dominates(a[0], b[0]):
                            ok = True
                        # … or for every element in an earlier loop over the same iterable (validate-then-commit)
                        if has and not ok:
                            from . import c06

                            l1, it1 = c06._loop_of(pre, arg, f.node)
                            l2, it2 = c06._loop_of(call, arg, f.node)
                            if l1 is not None and l2 is not None and l1 is not l2 and it1 == it2 and isinstance(l1, ast.For) and not any(
                                    isinstance(x, (ast.Break, ast.Continue, ast.Return)) for x in ast.walk(l1)):
                                ln = [x for x in cfg.node_of(l1) if x.kind == "iter"]
                                if ln and b and cfg.dominates(ln[0], b[0]):
                                    ok = True
                    ctx.check("R4", f"{c.name}.{f.name}: {norm(call)}", ok, f, call,
                              f"sets {flag} on a value without testing producer() first "
                              "(an initializer/input with a producing node)",
                              how="rejecting producer() test dominates the hook call")


def _producer_test_everywhere(fn: FuncInfo, needle: str = "producer()") -> bool:
    """A rejecting `….producer() …` test lies on every path from the entry of fn to a normal exit: no early return
    ('already owned by this graph, validated before') lets a value through untested - a value can be owned by the graph as
    an output, which is never tested for a producer."""
    tests = [n for n in own_nodes(fn.node) if isinstance(n, ast.If) and _rejects(n) and needle in norm(n.test)]
    if not tests:
        return False
    cfg = CFG(fn.node)
    ids = {x.id for t in tests for x in cfg.node_of(t) if x.kind == "test"}
    return bool(ids) and cfg.all_paths_through(cfg.entry, ids, {cfg.exit.id}, exc=False)


def _rejects(ifnode: ast.If) -> bool:
    return any(isinstance(s, ast.Raise) for s in ifnode.body)


def _guarded_by_flag_test(f: FuncInfo, stmt, recv: str) -> bool:
    cfg = CFG(f.node)
    sn = cfg.node_of(stmt)
    if not sn:
        return False
    for n in own_nodes(f.node):
        if not (isinstance(n, ast.If) and _rejects(n)):
            continue
        t = norm(n.test)
        if not any(k in t for k in ("is_graph_input()", "is_initializer()", "_is_graph_input", "_is_initializer", "_owned_by_graph()")):
            continue
        a = [x for x in cfg.node_of(n) if x.kind == "test"]
        if a and (cfg.dominates(a[0], sn[0]) or _loop_precedes(n, stmt)):
            return True
    return False


def _loop_precedes(ifnode, stmt) -> bool:
    """The test sits in an earlier validation loop over the same iterable as the store's loop."""
    def loop_of(n):
        p = getattr(n, "_parent", None)
        while p is not None and not isinstance(p, (ast.For, ast.FunctionDef)):
            p = getattr(p, "_parent", None)
        return p if isinstance(p, ast.For) else None

    a, b = loop_of(ifnode), loop_of(stmt)
    if a is None or b is None or a is b:
        return False
    ia, ib = norm(a.iter), norm(b.iter)
    same = ia == ib or ib == f"enumerate({ia})" or ia == f"enumerate({ib})"
    return same and a.lineno < b.lineno and getattr(a, "_parent", None) is getattr(b, "_parent", None)


BOOKKEEPING_Q = ("Value._producer", "Value._index", "Value._uses", "Value._graph", "Value._is_graph_input", "Value._is_graph_output",
                 "Value._is_initializer", "Node._graph", "Node._inputs", "Node._outputs", "Graph._nodes", "DoublyLinkedSet._length",
                 "DoublyLinkedSet._value_ids_to_boxes", "_LinkBox.prev", "_LinkBox.next", "_LinkBox.value")


def rule_r6(ctx):
    import hashlib
    import re as _re

    from ..effects import Effects
    from . import c06

    ef = ctx._shared.get("effects")
    if ef is None:
        ef = ctx._shared["effects"] = Effects(ctx.repo, ctx.typer, tier4=(ctx.tier == "thorough"))
    ef.compute()
    used: dict = {}
    muts = c06.mutators(ctx)
    own = frozenset(f.key for f in muts)
    for f in muts:
        sites = c06.analyse_mutator(ef, f, used, own)
        # a write event counts when it touches a bookkeeping field itself, or is a call of another public mutator (all
        # of which maintain bookkeeping) - the latter keeps the verdict independent of how deep the resolver looks
        bad = [(m, c, u) for m, c, u, _ in sites if u and ((set(m.qfields) & set(BOOKKEEPING_Q)) or (m.callee is not None and m.callee.key in own))]
        if not bad:
            ctx.ob("R6", f"{f.local}: no bookkeeping write precedes a feasible rejection", True,
                   how="C06 forward may-analysis (M before C) filtered to use-def / ownership fields")
            continue
        for m, c, undis in bad:
            guards = sorted(r.key for r in undis)
            ctx.ob("R6", f"{f.local}: {short(m.node)[:50]} … then {short(c.node)[:50]}", False, how="M on a bookkeeping field reaches C")
            ctx.violation("R6", f, c.node,
                          f"a bookkeeping field ({sorted(set(m.qfields) & set(BOOKKEEPING_Q)) or 'through ' + (m.callee.local if m.callee else '?')}) is written ({m.desc}) and a later point on the same "
                          "path can still reject: " + "; ".join(guards[:3]) + " - after the rejected call the use-def / ownership links are inconsistent",
                          construct=f"{short(m.node)[:70]} => {short(c.node)[:70]}")


    # the validations that make a later rejection impossible must still stand in every mutator that writes bookkeeping fields
    # before it (the C06 table names them; an entry whose validation was weakened no longer discharges anything)
    for i, ent in enumerate(c06.INFEASIBLE):
        for need, holders, missing in c06.required_validations(ef, muts, used, i, ent):
            for f in missing:
                if not any(set(m.qfields) & set(BOOKKEEPING_Q) or (m.callee is not None and m.callee.key in own) for m, _c in ef.summary(f).dirty):
                    continue
                ctx.check("R6", f"{f.local}: validation `{need}` precedes its bookkeeping writes", False, f, f.node,
                          f"the validation `{need}` is gone from {f.local}, which writes use-def / ownership fields before a point that can still reject "
                          f"({ent['guard'][:80]}): after the rejected call the values it released or adopted disagree with the lists that hold them",
                          how="C06 infeasibility table: the dominating validation an entry relies on is searched among the mutator's own rejections",
                          construct=f"missing validation {need} in {f.local}")


_MUT_CTORS = ("list", "dict", "set", "collections.Counter", "Counter", "collections.defaultdict", "defaultdict", "collections.OrderedDict",
              "OrderedDict", "collections.deque", "deque", "bytearray")


def rule_per_instance_state(ctx):
    """Bookkeeping containers belong to one object: no class of the IR core declares a mutable container at class level
    without binding a fresh one per instance in __init__ - a class-level Counter/dict/list is one object shared by every
    instance (all graphs' inputs and outputs would count their references in the same table)."""
    n = 0
    for mn in ("onnx_ir._core", "onnx_ir._graph_containers", "onnx_ir._linked_list", "onnx_ir._name_authority", "onnx_ir._multi_device"):
        m = ctx.repo.modules.get(mn)
        if m is None:
            continue
        for c in m.classes.values():
            n += 1
            bad = None
            for st in c.node.body:
                if not (isinstance(st, (ast.Assign, ast.AnnAssign)) and getattr(st, "value", None) is not None):
                    continue
                v = st.value
                mutable = isinstance(v, (ast.List, ast.Dict, ast.Set, ast.ListComp, ast.DictComp, ast.SetComp)) or (
                    isinstance(v, ast.Call) and (dotted_of(v.func) or "") in _MUT_CTORS)
                if not mutable:
                    continue
                for t in st.targets if isinstance(st, ast.Assign) else [st.target]:
                    if not isinstance(t, ast.Name) or t.id.startswith("__"):
                        continue
                    init = c.methods.get("__init__")
                    rebound = init is not None and any(
                        isinstance(a, (ast.Assign, ast.AnnAssign)) and getattr(a, "value", None) is not None and any(
                            isinstance(tt, ast.Attribute) and tt.attr == t.id and norm(tt.value) == "self" for tt in (a.targets if isinstance(a, ast.Assign) else [a.target]))
                        for a in own_nodes(init.node))
                    family = [c] + [k for k in ctx.repo.subclasses(c) if not k.external]
                    used = any(isinstance(x, ast.Attribute) and x.attr == t.id and norm(x.value) == "self"
                               for k in family for f in k.methods.values() for x in own_nodes(f.node))
                    if used and not rebound:
                        bad = st
            ctx.check("R2", f"{c.name}: no mutable container shared at class level", bad is None, c, bad if bad is not None else c.node,
                      f"`{norm(bad) if bad is not None else ''}` creates ONE container for all instances of {c.name} (and its subclasses) and no __init__ binds a "
                      "fresh one: per-object bookkeeping (reference counts, registries) is mixed up between unrelated objects",
                      how="class-body assignments of list/dict/set/Counter/… used through self and not re-bound in __init__", nontrivial=False,
                      construct=f"shared class-level container in {c.name}")
    ctx.require(n >= 30, f"only {n} classes examined for class-level mutable state")


def rule_r7(ctx, rule="R7", consequence=""):
    m = ctx.repo.modules["onnx_ir._graph_containers"]
    n = 0
    for f in m.all_funcs:
        if isinstance(f.node, ast.Lambda):
            continue
        for call in calls_in(f):
            if not (is_self_call(call, HOOK_ADD) or is_self_call(call, HOOK_DEL)) or not call.args:
                continue
            n += 1
            argnames = {x.id for x in ast.walk(call.args[0]) if isinstance(x, ast.Name)}
            bad = None
            p, child = getattr(call, "_parent", None), call
            while p is not None and p is not f.node:
                if isinstance(p, ast.If) and any(child is b or any(child is x for x in ast.walk(b)) for b in p.body + p.orelse):
                    tests = p.test.values if isinstance(p.test, ast.BoolOp) else [p.test]
                    for t in tests:
                        inner = t.operand if isinstance(t, ast.UnaryOp) and isinstance(t.op, ast.Not) else t
                        if isinstance(inner, ast.Call) and dotted_of(inner.func) == "isinstance":
                            continue
                        if isinstance(inner, ast.Compare) and len(inner.ops) == 1 and isinstance(inner.ops[0], (ast.Is, ast.IsNot)) \
                                and isinstance(inner.comparators[0], ast.Constant) and inner.comparators[0].value is None:
                            continue  # presence of an optional argument
                        # `K in B` guarding a hook on B[K]: presence of the old element under that key, not a filter
                        if isinstance(inner, ast.Compare) and len(inner.ops) == 1 and isinstance(inner.ops[0], ast.In) and any(
                                isinstance(x, ast.Subscript) and norm(x.value) == norm(inner.comparators[0]) and norm(x.slice) == norm(inner.left)
                                for x in ast.walk(call.args[0])):
                            continue
                        if argnames & {x.id for x in ast.walk(t) if isinstance(x, ast.Name)}:
                            bad = bad or t
                child, p = p, getattr(p, "_parent", None)
            ctx.check(rule, f"{f.local}: {norm(call)} is applied to every occurrence (no filter on the element)", bad is None, f, bad if bad is not None else call,
                      f"`{norm(call)}` runs only when `{norm(bad) if bad is not None else ''}` holds: the hooks count occurrences of a value in the list, so "
                      "skipping one for some occurrences leaves the counter - and with it is_graph_input()/is_graph_output()/graph - out of step with "
                      f"the list's content{consequence}",
                      how="tests between the hook call and its function that mention the hook's argument (isinstance / `is None` excepted)",
                      construct=f"filtered {norm(call)}")
    ctx.require(n >= 12, f"only {n} ownership-hook call sites found in _graph_containers")


def _loop_var_and_seq(lp: ast.For):
    """(element variable, text of the iterated sequence) for `for x in S` / `for i, x in enumerate(S)`."""
    it, tg = lp.iter, lp.target
    if isinstance(it, ast.Call) and dotted_of(it.func) == "enumerate" and it.args and isinstance(tg, ast.Tuple) and len(tg.elts) == 2:
        it, tg = it.args[0], tg.elts[1]
    if isinstance(tg, ast.Name):
        return tg.id, norm(it)
    return None, None


def rule_rekey(ctx, rule="R3", consequence=""):
    """An initializer stays keyed by its current name: in the Value.name setter every path from the store of the new name
    to the function's exit passes the test that leads to the re-keying of the graph's initializer table."""
    from ..cfg import CFG

    setter = ctx.repo.cls("onnx_ir._core:Value").props.get("name", {}).get("set")
    ctx.require(setter is not None, "Value.name setter not found")
    stores = [a for a in own_nodes(setter.node) if isinstance(a, ast.Assign) and any(
        isinstance(t, ast.Attribute) and t.attr == "_name" and norm(t.value) == setter.params[0] for t in a.targets)]
    rekeys = [a for a in own_nodes(setter.node) if isinstance(a, ast.Assign) and any(
        isinstance(t, ast.Subscript) and isinstance(t.value, ast.Attribute) and t.value.attr == "initializers" for t in a.targets)]
    ctx.require(bool(stores) and bool(rekeys), "store of _name / re-keying of the initializer table not found in the Value.name setter")
    cfg = CFG(setter.node)
    for st in stores:
        sn = cfg.nodes_containing(st)[0]
        # the tests that guard the re-keying statement
        guards = []
        child, p_ = rekeys[0], getattr(rekeys[0], "_parent", None)
        while p_ is not None:
            if isinstance(p_, ast.If):
                guards += [x for x in cfg.node_of(p_) if x.kind == "test"]
            # … and the guard clauses before it (`if not is_initializer: return` decides the same thing by leaving)
            for fld in ("body", "orelse"):
                blk = getattr(p_, fld, None)
                if isinstance(blk, list) and child in blk:
                    for prev in blk[: blk.index(child)]:
                        if isinstance(prev, ast.If) and not prev.orelse and prev.body and isinstance(prev.body[-1], ast.Return):
                            guards += [x for x in cfg.node_of(prev) if x.kind == "test"]
            if p_ is setter.node:
                break
            child, p_ = p_, getattr(p_, "_parent", None)
        rn = cfg.nodes_containing(rekeys[0])[0]
        after = cfg.dominates(sn, rn) or any(cfg.dominates(sn, g) for g in guards)
        if guards and after:
            ok = not cfg.path_exists_avoiding(sn, {cfg.exit.id}, {g.id for g in guards}, exc=False)
        elif after:
            ok = not cfg.path_exists_avoiding(sn, {cfg.exit.id}, {rn.id}, exc=False)
        else:
            # re-keyed before the store: fine as long as the re-keying dominates the store
            ok = cfg.dominates(rn, sn) or any(cfg.dominates(g, sn) for g in guards)
        ctx.check(rule, "Value.name setter: every path from the store of the new name reaches the initializer re-keying test", ok, setter, st,
                  "after `self._name = value` the setter can return without reaching the test that re-keys `graph.initializers`: an initializer "
                  f"renamed on that path stays stored under its old name{consequence}",
                  how="CFG: paths from the `_name` store to the exit that avoid the test guarding `<graph>.initializers[...] = self`",
                  construct="initializer re-keying skipped on a path of the name setter")
        # … and nothing that can fail sits between the two: once the new name is stored, an exception before the table is
        # re-keyed leaves the initializer under its old key (a foreign tensor's name setter may reject the name)
        first_touch = [n for n in cfg.nodes if n.kind == "stmt" and any(isinstance(x, ast.Attribute) and x.attr == "initializers" for x in ast.walk(n.ast))
                       and not isinstance(n.ast, (ast.If, ast.Assert))]
        targets = {n.id for n in first_touch if sn.id != n.id and n.id in cfg.reachable_from(sn, exc=False)}
        if targets and after:
            between = [n for n in cfg.nodes if n.id != sn.id and n.id not in targets and n.id in cfg.reachable_from(sn, exc=False)
                       and any(t in cfg.reachable_from(n, exc=False) for t in targets)
                       and cfg.path_exists_avoiding(sn, {n.id}, targets, exc=False)]
            me = setter.params[0]

            def may_fail(node):
                if node.kind != "stmt" or isinstance(node.ast, (ast.Assert, ast.Pass, ast.If, ast.For, ast.While, ast.With, ast.Try)):
                    exprs = node.exprs() if node.kind == "test" else []
                else:
                    exprs = [node.ast]
                for e in exprs:
                    for x in ast.walk(e):
                        if isinstance(x, ast.Call):
                            return x
                        if isinstance(x, (ast.Attribute, ast.Subscript)) and isinstance(x.ctx, (ast.Store, ast.Del)) and not (
                                isinstance(x, ast.Attribute) and norm(x.value) == me):
                            return x
                return None

            bad = next((b for b in (may_fail(n) for n in between) if b is not None), None)
            ctx.check(rule, "Value.name setter: nothing that can fail lies between the store of the new name and the re-keying", bad is None, setter,
                      bad if bad is not None else st,
                      f"`{norm(bad)[:60] if bad is not None else ''}` runs after `self._name = value` and before the initializer table is re-keyed: if it raises (a tensor "
                      f"whose name setter rejects the name), the value already carries the new name while the graph still stores it under the old key{consequence}",
                      how="statements on the paths from the `_name` store to the first statement touching `<graph>.initializers`: no call, no store through another object",
                      construct="fallible statement between the name store and the re-keying")


def rule_r8(ctx):
    n = 0
    for mn in ("onnx_ir._core", "onnx_ir._graph_containers", "onnx_ir._convenience"):
        m = ctx.repo.modules[mn]
        for f in m.all_funcs:
            if isinstance(f.node, ast.Lambda):
                continue
            loops = [x for x in own_nodes(f.node) if isinstance(x, ast.For)]
            for l2 in loops:
                v2, s2 = _loop_var_and_seq(l2)
                if v2 is None:
                    continue
                written = {t.attr.lstrip("_") for st in l2.body for x in ast.walk(st) if isinstance(x, (ast.Assign, ast.AugAssign))
                           for t in (x.targets if isinstance(x, ast.Assign) else [x.target])
                           if isinstance(t, ast.Attribute) and isinstance(t.value, ast.Name) and t.value.id == v2}
                if not written:
                    continue
                for l1 in loops:
                    if l1 is l2 or l1.lineno >= l2.lineno:
                        continue
                    v1, s1 = _loop_var_and_seq(l1)
                    if v1 is None or s1 != s2:
                        continue
                    read = set()
                    for i in (x for st in l1.body for x in ast.walk(st) if isinstance(x, ast.If) and _rejects(x)):
                        read |= {a.attr.lstrip("_") for a in ast.walk(i.test) if isinstance(a, ast.Attribute) and isinstance(a.value, ast.Name) and a.value.id == v1}
                    both = sorted(read & written)
                    if not both:
                        continue
                    n += 1
                    # a rejection comparing the number of distinct elements with the length of the sequence - or a sequence
                    # that is a set (distinct by construction)
                    distinct = any(isinstance(a, ast.Assign) and any(isinstance(t, ast.Name) and t.id == s2 for t in a.targets) and (
                        isinstance(a.value, (ast.Set, ast.SetComp)) or (isinstance(a.value, ast.Call) and dotted_of(a.value.func) in ("set", "frozenset", "dict.fromkeys")))
                        for a in own_nodes(f.node))
                    for i in (x for x in own_nodes(f.node) if isinstance(x, ast.If) and _rejects(x) and x.lineno < l2.lineno):
                        t = norm(i.test)
                        if isinstance(i.test, ast.Compare) and f"len({s2})" in t and re.search(r"len\((set\(|\{)", t):
                            distinct = True
                    ctx.check("R8", f"{f.local}: `{s2}` is checked against {both} and then written per element: repeated elements are rejected", distinct, f, l2,
                              f"{f.local} validates every element of `{s2}` against {both} and then writes that link per element, but never rejects a repeated "
                              f"element: the second occurrence passed its check before the first was committed, and ends up with a link (index) that names only "
                              "one of its positions",
                              how="validation loop (rejecting test on x.A) + later loop over the same sequence writing x.A; a rejection comparing len(set(...)) with len(sequence)",
                              construct=f"aliasing between validation and commit over {s2}")
    ctx.require(n >= 1, "no validate-then-link loop pair found (Node._create_outputs expected)")


def rule_r10(ctx):
    k = ctx.repo.cls("onnx_ir._core:Value")
    g = (k.props.get("graph") or {}).get("get")
    ctx.require(g is not None, "Value.graph getter not found")
    me = g.params[0]
    link = f"{me}._graph"
    n = 0
    for r in (x for x in own_nodes(g.node) if isinstance(x, ast.Return)):
        v = r.value
        if v is None or (isinstance(v, ast.Constant) and v.value is None) or norm(v) == link:
            continue
        # `link if link is not None else …` / `link or …`
        if isinstance(v, ast.IfExp) and norm(v.body) == link and norm(v.test) == f"{link} is not None":
            continue
        if isinstance(v, ast.BoolOp) and isinstance(v.op, ast.Or) and norm(v.values[0]) == link:
            continue
        n += 1
        governed = False
        child, par = r, getattr(r, "_parent", None)
        while par is not None:
            for fld in ("body", "orelse"):
                blk = getattr(par, fld, None)
                if isinstance(blk, list) and child in blk:
                    for prev in blk[: blk.index(child)]:
                        if isinstance(prev, ast.If) and not prev.orelse and norm(prev.test) == f"{link} is not None" and prev.body and isinstance(prev.body[-1], ast.Return) \
                                and norm(prev.body[-1].value) == link:
                            governed = True
                    if isinstance(par, ast.If) and ((fld == "orelse" and norm(par.test) == f"{link} is not None") or (fld == "body" and norm(par.test) == f"{link} is None")):
                        governed = True
            if par is g.node:
                break
            child, par = par, getattr(par, "_parent", None)
        ctx.check("R10", f"Value.graph: `{norm(r)[:60]}` is answered only when the ownership link is unset", governed, g, r,
                  f"`{norm(r)[:70]}` can be the answer of Value.graph while `{link}` is set: the graph that lists the value as its input, output or initializer "
                  "is then not the graph the value reports - an output of a subgraph that is produced in the enclosing graph names the enclosing graph, "
                  "is_graph_output() is True, and it is in neither graph's outputs according to its own link",
                  how="returns of Value.graph other than the link itself are governed by `self._graph is None` (guard clause returning the link, or the branch)",
                  construct="Value.graph answers before consulting the ownership link")
    ctx.ob("R10", f"Value.graph: {n} fallback answer(s), each given only when `_graph` is None", True, nontrivial=False) if n == 0 else None
    ctx.require(any(isinstance(x, ast.Attribute) and x.attr == "_graph" for x in ast.walk(g.node)), "Value.graph does not read the ownership link `_graph`")


def rule_r13(ctx, rule="R13"):
    node_cls = ctx.repo.cls(_N)
    n = 0
    for f in list(node_cls.methods.values()) + [p[k] for p in node_cls.props.values() for k in p]:
        if isinstance(f.node, ast.Lambda):
            continue
        for c in calls_in(f):
            if not (isinstance(c.func, ast.Attribute) and c.func.attr in ("_add_usage", "_remove_usage") and len(c.args) >= 2):
                continue
            n += 1
            idx = c.args[1]
            ok, why = False, f"`{norm(idx)}` is neither a parameter nor an enumerate counter"
            if isinstance(idx, ast.Name):
                if idx.id in f.params:
                    ok = True
                else:
                    # counter of an enclosing `for i, v in enumerate(<inputs>)`
                    p_ = getattr(c, "_parent", None)
                    while p_ is not None and p_ is not f.node:
                        if isinstance(p_, ast.For) and isinstance(p_.target, ast.Tuple) and p_.target.elts and isinstance(p_.target.elts[0], ast.Name) \
                                and p_.target.elts[0].id == idx.id and isinstance(p_.iter, ast.Call) and dotted_of(p_.iter.func) == "enumerate" and p_.iter.args:
                            src = p_.iter.args[0]
                            plain = isinstance(src, (ast.Name, ast.Attribute)) and len(p_.iter.args) == 1 and not p_.iter.keywords
                            ok = plain
                            why = f"the counter runs over `{norm(src)[:50]}`, not over the inputs as they are"
                        p_ = getattr(p_, "_parent", None)
            ctx.check(rule, f"{f.local}: `{norm(c)[:50]}` uses the value's position among the inputs", ok, f, c,
                      f"`{norm(c)[:60]}`: {why} - for a node with an omitted input (`Clip(x, '', hi)`) the use of every later input is registered one position too low: "
                      "`hi.uses()` says (clip, 1) while `clip.inputs[1]` is None and `clip.inputs[2]` is hi, so use-def links disagree and later edits address the wrong slot",
                      how="second argument of _add_usage / _remove_usage in Node: a parameter, or the counter of enumerate over a plain name / attribute",
                      construct="use registered at a filtered position")
    ctx.require(n >= 3, f"only {n} use registrations found in Node")


def rule_r12(ctx):
    repo = ctx.repo
    n = 0
    for cname in ("_GraphIO", "GraphInputs", "GraphOutputs", "GraphInitializers"):
        k = repo.cls(f"onnx_ir._graph_containers:{cname}")
        for f in k.methods.values():
            if isinstance(f.node, ast.Lambda) or not f.params:
                continue
            me = f.params[0]
            removals = [c for c in calls_in(f) if isinstance(c.func, ast.Attribute) and c.func.attr in ("__delitem__", "__setitem__", "pop") and is_super_call(c) and c.args
                        and isinstance(c.args[0], ast.Name) and c.args[0].id in f.params]
            if not removals:
                continue
            keys = {c.args[0].id for c in removals}
            for x in own_nodes(f.node):
                if isinstance(x, ast.Subscript) and isinstance(x.ctx, ast.Load) and norm(x.value) == f"{me}.data":
                    n += 1
                    ok = isinstance(x.slice, ast.Name) and x.slice.id in keys
                    ctx.check("R12", f"{f.local}: `{norm(x)}` reads the element(s) at the index that is removed", ok, f, x,
                              f"`{norm(x)}` finds the element(s) to release with an index other than the one handed to `{norm(removals[0])[:50]}` ({sorted(keys)}): for some "
                              "index values the two differ (`slice(i, i + 1)` is empty for i = -1), so a value leaves the list without its release hook - it is no longer "
                              "listed but still says is_graph_input() / is_graph_output(), still points at the graph and cannot be given to another graph",
                              how="index expressions of `self.data[…]` reads vs the first argument of the super() removal in the same method",
                              construct=f"release reads {norm(x)[:40]}")
    ctx.require(n >= 3, f"only {n} element reads found in the item methods of the tracked collections")


def rule_r11(ctx):
    repo = ctx.repo
    roles = {"_is_graph_input": "is_graph_input", "_is_graph_output": "is_graph_output", "_is_initializer": "is_initializer"}
    value_cls = repo.cls("onnx_ir._core:Value")
    # helpers of Value that test all three role flags
    all_three = {m.name for m in value_cls.methods.values() if not isinstance(m.node, ast.Lambda)
                 and all(any(isinstance(x, ast.Attribute) and x.attr == fl for x in ast.walk(m.node)) for fl in roles)}
    n = 0
    for cname in ("GraphInputs", "GraphOutputs", "GraphInitializers"):
        k = repo.cls(f"onnx_ir._graph_containers:{cname}")
        f = repo.lookup(k, "_maybe_unset_graph")  # the collection's own, or the one it inherits
        ctx.require(isinstance(f, FuncInfo) and len(f.params) >= 2, f"{cname}._maybe_unset_graph not found")
        v = f.params[1]
        own = [a.targets[0].attr for a in own_nodes(f.node) if isinstance(a, ast.Assign) and isinstance(a.targets[0], ast.Attribute) and norm(a.targets[0].value) == v
               and a.targets[0].attr in roles and isinstance(a.value, ast.Constant) and a.value.value is False]
        # … or `setattr(value, self.<class attribute>, False)` with the flag's name a string constant of this collection's class
        for c_ in own_nodes(f.node):
            if isinstance(c_, ast.Call) and dotted_of(c_.func) == "setattr" and len(c_.args) == 3 and norm(c_.args[0]) == v and isinstance(c_.args[2], ast.Constant) \
                    and c_.args[2].value is False and isinstance(c_.args[1], ast.Attribute) and norm(c_.args[1].value) == f.params[0]:
                for kk in repo.mro(k):
                    e_ = getattr(kk, "class_attrs", {}).get(c_.args[1].attr)
                    if isinstance(e_, ast.Constant) and e_.value in roles:
                        own.append(e_.value)
                        break
        ctx.require(len(own) == 1, f"{cname}._maybe_unset_graph: the role flag it clears was not found")
        others = set(roles) - {own[0]}
        clears = [a for a in own_nodes(f.node) if isinstance(a, ast.Assign) and isinstance(a.targets[0], ast.Attribute) and norm(a.targets[0].value) == v
                  and a.targets[0].attr == "_graph" and isinstance(a.value, ast.Constant) and a.value.value is None]
        ctx.require(bool(clears), f"{cname}._maybe_unset_graph: the statement clearing value._graph was not found")
        for a in clears:
            n += 1
            tests = []
            child, par = a, getattr(a, "_parent", None)
            while par is not None:
                for fld in ("body", "orelse"):
                    blk = getattr(par, fld, None)
                    if isinstance(blk, list) and child in blk:
                        tests += [p_.test for p_ in blk[: blk.index(child)] if isinstance(p_, ast.If) and not p_.orelse and p_.body and isinstance(p_.body[-1], ast.Return)]
                        if isinstance(par, ast.If):
                            tests.append(par.test)
                if par is f.node:
                    break
                child, par = par, getattr(par, "_parent", None)
            covered = set()
            for t in tests:
                for x in ast.walk(t):
                    if isinstance(x, ast.Attribute) and norm(x.value) == v and x.attr in roles:
                        covered.add(x.attr)
                    if isinstance(x, ast.Call) and isinstance(x.func, ast.Attribute) and norm(x.func.value) == v:
                        if x.func.attr in all_three:
                            covered |= set(roles)
                        for fl, meth in roles.items():
                            if x.func.attr == meth:
                                covered.add(fl)
            missing = sorted(others - covered)
            ctx.check("R11", f"{cname}._maybe_unset_graph: the link is cleared only when the value has neither other role", not missing, f, a,
                      f"`{norm(a)}` is governed by tests that do not ask about {missing}: a value released from {cname} that still has that role - it is still listed by the "
                      "graph - loses `_graph`, so `value.graph` is None while `is_graph_output()` / `is_graph_input()` / `is_initializer()` is True, and releasing it "
                      "from the other collection later fails its own assertion",
                      how="role flags mentioned by the tests that govern `value._graph = None` (guard clauses and enclosing ifs), directly or through a helper of Value that reads all three",
                      construct=f"{cname} clears the graph link without asking about {missing}")
    ctx.require(n >= 3, f"only {n} link-clearing statements found in the graph collections")


def run(ctx):
    from ..shared import rule_s17

    rule_r13(ctx)
    rule_r12(ctx)
    rule_r11(ctx)
    rule_r10(ctx)

    rule_s17(ctx, "R9", lambda f: f.module.name in ("onnx_ir._core", "onnx_ir._graph_containers", "onnx_ir._linked_list", "onnx_ir._convenience", "onnx_ir._name_authority"),
             "the bookkeeping of the other elements is left half-updated", floor=40)
    rule_rekey(ctx)
    rule_r8(ctx)
    rule_r7(ctx)
    rule_per_instance_state(ctx)
    rule_r6(ctx)
    from . import c11

    c11.rule_r3(ctx, rule="R5")
    rule_r1(ctx)
    rule_r1b(ctx)
    rule_r2(ctx)
    rule_r3(ctx)
    rule_r4(ctx)
