"""Reader for the text of onnx-ml.proto (located without importing ``onnx``)."""

from __future__ import annotations

import importlib.util
import os
import re

from .index import AnalysisError

_TOKEN = re.compile(r"\s*(?:(//[^\n]*)|(/\*.*?\*/)|(\"(?:[^\"\\]|\\.)*\")|([A-Za-z_][\w.]*)|(-?\d[\w.]*)|(.))", re.S)


class Field:
    def __init__(self, name, type_, label, number, oneof=None):
        self.name = name
        self.type = type_
        self.label = label  # 'optional' | 'repeated' | 'map'
        self.number = number
        self.oneof = oneof

    def __repr__(self):
        return f"Field({self.label} {self.type} {self.name}={self.number})"


class Message:
    def __init__(self, name, full):
        self.name = name
        self.full = full
        self.fields: dict[str, Field] = {}
        self.oneofs: dict[str, list[str]] = {}
        self.nested: dict[str, "Message"] = {}
        self.enums: dict[str, dict[str, int]] = {}


class Schema:
    SCALARS = {
        "int32", "int64", "uint32", "uint64", "sint32", "sint64", "fixed32", "fixed64",
        "sfixed32", "sfixed64", "float", "double", "bool", "string", "bytes",
    }  # fmt: skip

    def __init__(self, path: str | None = None):
        if path is None:
            spec = importlib.util.find_spec("onnx")
            if spec is None or not spec.submodule_search_locations:
                raise AnalysisError("onnx package (for onnx-ml.proto) not found")
            path = os.path.join(list(spec.submodule_search_locations)[0], "onnx-ml.proto")
        if not os.path.isfile(path):
            raise AnalysisError(f"{path} not found")
        self.path = path
        with open(path, encoding="utf-8") as f:
            text = f.read()
        self.tokens = [
            m.group(3) or m.group(4) or m.group(5) or m.group(6)
            for m in _TOKEN.finditer(text)
            if not (m.group(1) or m.group(2)) and (m.group(3) or m.group(4) or m.group(5) or m.group(6))
        ]
        self.pos = 0
        self.messages: dict[str, Message] = {}  # by full dotted name ("TypeProto.Tensor")
        self.enums: dict[str, dict[str, int]] = {}
        self._parse_file()
        if "ModelProto" not in self.messages or len(self.messages) < 15:
            raise AnalysisError("onnx-ml.proto: schema recovery below floor")

    # --- tokenizer helpers
    def _peek(self):
        return self.tokens[self.pos] if self.pos < len(self.tokens) else None

    def _next(self):
        t = self.tokens[self.pos]
        self.pos += 1
        return t

    def _skip_statement(self):
        depth = 0
        while self.pos < len(self.tokens):
            t = self._next()
            if t == "{":
                depth += 1
            elif t == "}":
                depth -= 1
                if depth == 0:
                    return
            elif t == ";" and depth == 0:
                return

    def _parse_file(self):
        while self._peek() is not None:
            t = self._peek()
            if t == "message":
                self._parse_message(None)
            elif t == "enum":
                name, vals = self._parse_enum()
                self.enums[name] = vals
            else:
                self._skip_statement()

    def _parse_enum(self):
        self._next()
        name = self._next()
        assert self._next() == "{"
        vals = {}
        while self._peek() != "}":
            t = self._next()
            if t in ("option", "reserved"):
                while self._next() != ";":
                    pass
                continue
            if t == ";":
                continue
            assert self._next() == "="
            num = int(self._next(), 0)
            vals[t] = num
            while self._next() != ";":
                pass
        self._next()
        return name, vals

    def _parse_message(self, parent: Message | None):
        self._next()
        name = self._next()
        full = f"{parent.full}.{name}" if parent else name
        msg = Message(name, full)
        self.messages[full] = msg
        if parent:
            parent.nested[name] = msg
        assert self._next() == "{"
        self._parse_body(msg, None)
        return msg

    def _parse_body(self, msg: Message, oneof: str | None):
        while self._peek() != "}":
            t = self._peek()
            if t == "message":
                self._parse_message(msg)
            elif t == "enum":
                name, vals = self._parse_enum()
                msg.enums[name] = vals
                self.enums[f"{msg.full}.{name}"] = vals
            elif t == "oneof":
                self._next()
                oname = self._next()
                assert self._next() == "{"
                msg.oneofs[oname] = []
                self._parse_body(msg, oname)
            elif t in ("reserved", "option", "extensions"):
                self._skip_statement()
            elif t == ";":
                self._next()
            else:
                label = "optional"
                if t in ("optional", "repeated", "required"):
                    label = self._next()
                ftype = self._next()
                if ftype == "map":
                    assert self._next() == "<"
                    k = self._next()
                    assert self._next() == ","
                    v = self._next()
                    assert self._next() == ">"
                    ftype = f"map<{k},{v}>"
                    label = "map"
                fname = self._next()
                assert self._next() == "=", (msg.full, fname)
                num = int(self._next(), 0)
                while self._next() != ";":
                    pass
                msg.fields[fname] = Field(fname, ftype, label, num, oneof)
                if oneof:
                    msg.oneofs[oneof].append(fname)
        self._next()

    # --- queries
    def resolve_type(self, msg: Message, tname: str) -> Message | None:
        """Message a field type refers to (scoped lookup), or None for scalars/enums."""
        if tname in self.SCALARS:
            return None
        scope = msg.full.split(".")
        for i in range(len(scope), -1, -1):
            cand = ".".join([*scope[:i], tname])
            if cand in self.messages:
                return self.messages[cand]
        return None

    def field_message(self, msg_full: str, fname: str) -> tuple[str | None, str | None]:
        """(message full name or None, label) of a field."""
        msg = self.messages.get(msg_full)
        if msg is None or fname not in msg.fields:
            return None, None
        f = msg.fields[fname]
        tgt = self.resolve_type(msg, f.type)
        return (tgt.full if tgt else None), f.label

    def reachable(self, root="ModelProto") -> list[str]:
        seen, stack = [], [root]
        while stack:
            n = stack.pop()
            if n in seen:
                continue
            seen.append(n)
            msg = self.messages[n]
            for f in msg.fields.values():
                tgt = self.resolve_type(msg, f.type)
                if tgt is not None:
                    stack.append(tgt.full)
        return seen
