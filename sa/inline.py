"""E1b — normal form of the analysed program: private helpers the analyser has no name for are expanded at their call sites.

The rules speak about the repository in terms of named anchors (``Graph.sort``, ``_set_graph``, ``_insert_one_after`` …).
Everything else that is private is implementation detail: whether a piece of a mechanism sits in the function itself or in
a private helper it calls (extract-method / inline-method refactorings) must not change a verdict.  This pass makes that
true by construction: before the index is built, every call that resolves to exactly one *transparent* helper is replaced
by the helper's body (parameters substituted, locals renamed apart, returns eliminated), bottom-up, so the rules, the CFG
and the effect summaries see the mechanism in one piece.  The helpers themselves stay in the index and are analysed on
their own as before.

A helper is transparent when
  * its name starts with one underscore, is not a dunder, and no rule / engine module mentions it (names and name prefixes
    are collected from the string constants of the analyser's own sources: what the analyser has a name for stays a call);
  * it is a plain module-level function, method or static method of the package: not nested, not decorated otherwise,
    not overriding or overridden, no ``*args``/``**kwargs``, no ``global``/``nonlocal``/nested ``def``/``await``;
  * the call resolves to it alone (tiers 1-3 of the resolver, never by name only) and is not recursive.

Call shapes that are expanded (everything else stays a call, which is what the rules saw before this pass existed):
  * ``helper(...)`` as a statement; ``x = helper(...)``; ``return helper(...)``  - statement form, early returns of the
    helper are eliminated by nesting the rest of its body under the complementary branch (returns inside loops / try /
    with are only accepted in the ``return helper(...)`` form, where they are returns of the caller as well);
  * ``for t in helper(...): BODY`` where helper is a generator: every ``yield e`` becomes ``t = e; BODY``;
  * any call of a helper whose body is a single ``return <expr>``: the expression replaces the call wherever it stands.
The transformation preserves the meaning of the program up to the evaluation order of argument expressions that are pure
names / attribute chains (anything else is first bound to a fresh local, in call order).
"""

from __future__ import annotations

import ast
import builtins
import os
import re

_BUILTINS = set(dir(builtins))
MAX_HELPER_STMTS = 80
MAX_DEPTH = 4


from . import roles  # noqa: E402


class _Skip(Exception):
    pass


# ---------------------------------------------------------------------------------------------- names the analyser knows
_ANCHORS: tuple[set[str], tuple[str, ...]] | None = None


def analyser_names() -> tuple[set[str], tuple[str, ...]]:
    """(exact names, name prefixes) of private identifiers mentioned in the string constants of the engine and rule modules."""
    global _ANCHORS
    if _ANCHORS is not None:
        return _ANCHORS
    here = os.path.dirname(os.path.abspath(__file__))
    files = []
    for fn in sorted(os.listdir(here)):
        if fn.endswith(".py") and fn not in ("selftest.py", "selftest_variants.py", "metamorph.py", "inline.py"):
            files.append(os.path.join(here, fn))
    rd = os.path.join(here, "rules")
    for fn in sorted(os.listdir(rd)):
        if fn.endswith(".py"):
            files.append(os.path.join(rd, fn))
    exact: set[str] = set()
    prefixes: set[str] = set()
    tok = re.compile(r"(?<![A-Za-z0-9_])_[A-Za-z][A-Za-z0-9_]*")
    anytok = re.compile(r"[A-Za-z_][A-Za-z0-9_]*")
    global _ALL_WORDS
    _ALL_WORDS = set()
    for p in files:
        with open(p, encoding="utf-8") as fh:
            tree = ast.parse(fh.read())
        for n in ast.walk(tree):
            if isinstance(n, ast.Constant) and isinstance(n.value, str):
                _ALL_WORDS.update(anytok.findall(n.value))
                for t in tok.findall(n.value):
                    if t.startswith("__"):
                        continue
                    if t.endswith("_") and len(t) > 3:
                        prefixes.add(t)
                    exact.add(t)
    _ANCHORS = (exact, tuple(sorted(prefixes)))
    return _ANCHORS


_ALL_WORDS: set[str] = set()


# name prefixes stand for families of functions the rules enumerate (`_deserialize_*`, `_parse_*` …): they live in these modules
_PREFIX_MODULES = ("onnx_ir.serde", "onnx_ir._symbolic_shapes")


def _known_to_analyser(name: str, module: str | None = None) -> bool:
    exact, prefixes = analyser_names()
    if not name.startswith("_"):
        return name in _ALL_WORDS  # public-looking method of a private class: any mention counts
    if name in exact:
        return True
    return (module is None or module in _PREFIX_MODULES) and any(name.startswith(p) for p in prefixes)


# ------------------------------------------------------------------------------------------------------------- AST utils
def clone(node):
    """Deep copy of an AST node without the analyser's back links (``_parent`` would drag the whole module along)."""
    if isinstance(node, list):
        return [clone(x) for x in node]
    if not isinstance(node, ast.AST):
        return node
    new = type(node)()
    for f in node._fields:
        if hasattr(node, f):
            setattr(new, f, clone(getattr(node, f)))
    for a in ("lineno", "col_offset", "end_lineno", "end_col_offset"):
        if hasattr(node, a):
            setattr(new, a, getattr(node, a))
    if hasattr(node, "_inl"):
        new._inl = node._inl
    return new


def _own(stmts):
    """Nodes of a statement list, not descending into nested function / class definitions."""
    stack = list(reversed(stmts))
    while stack:
        n = stack.pop()
        yield n
        if isinstance(n, (ast.FunctionDef, ast.AsyncFunctionDef, ast.ClassDef)):
            continue
        for c in ast.iter_child_nodes(n):
            stack.append(c)


def _strip_doc(body):
    """Body without the docstring and without leading constants bound to locals that nothing reads (no effect, no meaning)."""
    if body and isinstance(body[0], ast.Expr) and isinstance(body[0].value, ast.Constant) and isinstance(body[0].value.value, str):
        body = body[1:]
    while len(body) > 1 and isinstance(body[0], ast.Assign) and isinstance(body[0].value, ast.Constant) and len(body[0].targets) == 1 \
            and isinstance(body[0].targets[0], ast.Name):
        name = body[0].targets[0].id
        if any(isinstance(x, ast.Name) and x.id == name for st in body[1:] for x in ast.walk(st)):
            break
        body = body[1:]
    return body


def _pure_read(e) -> bool:
    """Expression without calls, bindings or comprehensions: reading it twice is reading it once."""
    return not any(isinstance(x, (ast.Call, ast.NamedExpr, ast.Lambda, ast.ListComp, ast.SetComp, ast.DictComp, ast.GeneratorExp,
                                  ast.Await, ast.Yield, ast.YieldFrom)) for x in ast.walk(e))


def _is_bool_const(e, v=None) -> bool:
    return isinstance(e, ast.Constant) and isinstance(e.value, bool) and (v is None or e.value is v)


def _negate(e):
    if isinstance(e, ast.UnaryOp) and isinstance(e.op, ast.Not):
        return e.operand
    return ast.UnaryOp(op=ast.Not(), operand=e)


def _as_decision_expr(body):
    """A predicate written as a chain of guard clauses - nothing but `if <test>: return <value>` / `return <value>`, at least
    one value the constant True or False - as the one boolean expression it decides (tests in the order they are evaluated,
    short-circuit kept): `if a: return False; if b: return True; return c` is `not a and (b or c)`.  None for anything else."""
    seen_const = []

    def decide(stmts):
        if not stmts:
            return None
        s = stmts[0]
        if isinstance(s, ast.Return):
            if s.value is None or len(stmts) != 1:
                return None
            if _is_bool_const(s.value):
                seen_const.append(s.value.value)
            return clone(s.value)
        if not isinstance(s, ast.If):
            return None
        b = decide(list(s.body))
        if b is None:
            return None
        if s.orelse and len(stmts) > 1:
            return None
        rest = decide(list(s.orelse) if s.orelse else list(stmts[1:]))
        if rest is None:
            return None
        t = clone(s.test)
        if _is_bool_const(b, True) and _is_bool_const(rest, False):
            return t
        if _is_bool_const(b, False) and _is_bool_const(rest, True):
            return _negate(t)
        if _is_bool_const(b, True):
            vals = [t] + (list(rest.values) if isinstance(rest, ast.BoolOp) and isinstance(rest.op, ast.Or) else [rest])
            return ast.BoolOp(op=ast.Or(), values=vals) if not _is_bool_const(rest, True) else ast.Constant(value=True)
        if _is_bool_const(b, False):
            if _is_bool_const(rest, False):
                return ast.Constant(value=False)
            vals = [_negate(t)] + (list(rest.values) if isinstance(rest, ast.BoolOp) and isinstance(rest.op, ast.And) else [rest])
            return ast.BoolOp(op=ast.And(), values=vals)
        if _is_bool_const(rest, False):
            return ast.BoolOp(op=ast.And(), values=[t, b])
        if _is_bool_const(rest, True):
            return ast.BoolOp(op=ast.Or(), values=[_negate(t), b])
        return ast.IfExp(test=t, body=b, orelse=rest)

    if len(body) < 2 or not all(isinstance(st, (ast.If, ast.Return)) for st in body):
        return None
    e = decide(list(body))
    if e is None or not seen_const:
        return None
    return ast.fix_missing_locations(e)


def _as_single_expr(body):
    """`return <expr>` - possibly after locals bound once to pure reads (`token = self.current_token`), which are written out
    in the returned expression.  None if the body is anything else."""
    body = _strip_doc(body)
    if not body or not isinstance(body[-1], ast.Return) or body[-1].value is None:
        return _as_decision_expr(body) if body else None
    if len(body) > 1 and any(isinstance(st, ast.If) for st in body):
        d = _as_decision_expr(body)
        if d is not None:
            return d
    env: dict[str, ast.expr] = {}
    for st in body[:-1]:
        if not (isinstance(st, ast.Assign) and len(st.targets) == 1 and isinstance(st.targets[0], ast.Name) and st.targets[0].id not in env
                and _pure_read(st.value)):
            return None
        env[st.targets[0].id] = _Subst(dict(env)).visit(clone(st.value)) if env else clone(st.value)
    expr = clone(body[-1].value)
    if not env:
        return expr
    if any(isinstance(x, ast.Name) and x.id in env and not isinstance(x.ctx, ast.Load) for x in ast.walk(expr)):
        return None
    try:
        return _Subst(dict(env)).visit(expr)
    except _Skip:
        return None


def _simple(e) -> bool:
    if isinstance(e, (ast.Name, ast.Constant)):
        return True
    if isinstance(e, ast.Attribute):
        return _simple(e.value) and not isinstance(e.value, ast.Constant)
    if isinstance(e, ast.Subscript):
        # `stack[-1]`, `table[key]`: a read of a container element, written out again wherever the parameter is used
        return _simple(e.value) and not isinstance(e.value, ast.Constant) and isinstance(e.slice, (ast.Constant, ast.Name)) \
            or (_simple(e.value) and isinstance(e.slice, ast.UnaryOp) and isinstance(e.slice.operand, ast.Constant))
    return False


def _terminates(stmts) -> bool:
    if not stmts:
        return False
    s = stmts[-1]
    if isinstance(s, (ast.Return, ast.Raise)):
        return True
    if isinstance(s, ast.If):
        return _terminates(s.body) and _terminates(s.orelse)
    return False


def _has_return(stmts) -> bool:
    return any(isinstance(n, ast.Return) for n in _own(stmts))


def _nest(stmts, mk):
    """Eliminate ``return`` from a statement list: ``mk(value)`` gives the statements that stand for `return value`; what
    follows an ``if`` that may return is moved under the branch(es) that fall through.  Returns inside loops / try / with /
    match cannot be expressed this way (_Skip)."""
    out = []
    for i, s in enumerate(stmts):
        if isinstance(s, ast.Return):
            out += mk(s.value)
            return out
        if isinstance(s, ast.If) and (_has_return(s.body) or _has_return(s.orelse)):
            rest = stmts[i + 1 :]
            bt, et = _terminates(s.body), _terminates(s.orelse)
            if bt and et:
                body, orelse = _nest(s.body, mk), _nest(s.orelse, mk)
            elif bt:
                body, orelse = _nest(s.body, mk), _nest(list(s.orelse) + rest, mk)
            elif et:
                body, orelse = _nest(list(s.body) + rest, mk), _nest(s.orelse, mk)
            else:
                body, orelse = _nest(list(s.body) + clone(rest), mk), _nest(list(s.orelse) + rest, mk)
            new = ast.If(test=s.test, body=body or [ast.Pass()], orelse=orelse)
            ast.copy_location(new, s)
            out.append(new)
            return out
        if isinstance(s, ast.Try) and _has_return([s]) and not s.finalbody and not _has_return(s.finalbody):
            # returns in the blocks of a try without finally: what follows the try runs after its else block and after every
            # handler that falls through, so it is moved there (the handlers do not protect it, as before)
            rest = stmts[i + 1 :]
            new = ast.Try(body=_nest(s.body, mk) or [ast.Pass()],
                          handlers=[ast.copy_location(ast.ExceptHandler(type=h.type, name=h.name, body=_nest(list(h.body) + clone(rest), mk) or [ast.Pass()]), h)
                                    for h in s.handlers],
                          orelse=_nest(list(s.orelse) + rest, mk) if (s.orelse or rest) and not _terminates(s.body) else (_nest(s.orelse, mk) if s.orelse else []),
                          finalbody=[])
            if _has_return(new.body) or any(isinstance(x, ast.Return) for x in _own(new.body)):
                raise _Skip("return left inside a try body")
            ast.copy_location(new, s)
            out.append(new)
            return out
        if _has_return([s]):
            raise _Skip("return inside a loop / try / with")
        out.append(s)
    return out


class _Subst(ast.NodeTransformer):
    def __init__(self, names: dict[str, ast.expr | str]):
        self.names = names

    def visit_Call(self, node):
        # a parameter bound to a lambda and applied in the helper (`transform(expr)`): the application is the lambda's body
        # with its parameters replaced by the arguments (beta reduction)
        lam = self.names.get(node.func.id) if isinstance(node.func, ast.Name) else None
        if isinstance(lam, ast.Lambda):
            a = lam.args
            if a.vararg or a.kwarg or a.kwonlyargs or a.defaults or node.keywords or len(a.args) != len(node.args):
                raise _Skip("lambda argument applied in an unsupported way")
            args = [self.visit(x) for x in node.args]
            if not all(_simple(x) for x in args):
                raise _Skip("lambda applied to a non-trivial argument")
            inner = _Subst({p_.arg: v for p_, v in zip(a.args, args)})
            return ast.copy_location(inner.visit(clone(lam.body)), node)
        self.generic_visit(node)
        return node

    def visit_Name(self, node):
        r = self.names.get(node.id)
        if r is None:
            return node
        if isinstance(r, ast.Lambda):
            raise _Skip("lambda argument used other than by calling it")
        if isinstance(r, str):
            return ast.copy_location(ast.Name(id=r, ctx=node.ctx), node)
        if not isinstance(node.ctx, ast.Load):
            raise _Skip("parameter bound to an expression is assigned")
        return ast.copy_location(clone(r), node)

    def visit_Lambda(self, node):
        # a lambda is a scope of its own: its parameter names are part of its signature (keyword calls) and shadow the
        # helper's names in its body - they are neither renamed nor substituted
        a = node.args
        own = {x.arg for x in a.posonlyargs + a.args + a.kwonlyargs} | ({a.vararg.arg} if a.vararg else set()) | ({a.kwarg.arg} if a.kwarg else set())
        a.defaults = [self.visit(d) for d in a.defaults]
        a.kw_defaults = [self.visit(d) if d is not None else None for d in a.kw_defaults]
        inner = _Subst({k: v for k, v in self.names.items() if k not in own}) if own & set(self.names) else self
        node.body = inner.visit(node.body)
        return node

    def visit_arg(self, node):
        r = self.names.get(node.arg)
        if isinstance(r, str):
            node.arg = r
        elif r is not None:
            raise _Skip("lambda parameter shadows a substituted name")
        return node

    def visit_ExceptHandler(self, node):
        if node.name and isinstance(self.names.get(node.name), str):
            node.name = self.names[node.name]
        self.generic_visit(node)
        return node


# --------------------------------------------------------------------------------------------------------------- the pass
class Inliner:
    def __init__(self, repo, typer):
        self.repo = repo
        self.typer = typer
        self.stats = {"helpers": 0, "sites": 0, "expr_sites": 0, "skipped": 0}
        self.log: list[str] = []
        self._cand: dict[int, object] = {}
        self._done: set[int] = set()
        self._active: set[int] = set()
        self._pending_globals: dict[int, list[str]] = {}
        self._counter = 0
        self._introduced: dict[str, set[str]] = {}
        self.into: dict[str, set[str]] = {}  # function key -> keys of the helpers whose bodies were expanded into it

    def _record(self, f, g):
        keys = {g.key} | self.into.get(g.key, set())
        h = f
        while h is not None:
            self.into.setdefault(h.key, set()).update(keys)
            h = h.parent

    # -- candidates
    def _shape(self, g):
        """None, or 'expr' | 'proc' | 'func' | 'gen' for a transparent helper."""
        node = g.node
        if not isinstance(node, ast.FunctionDef) or g.parent is not None or g.module.external:
            return None
        n = g.name
        private = n.startswith("_") or (g.cls is not None and g.cls.name.startswith("_"))
        if not private or n.startswith("__") or _known_to_analyser(n, g.module.name):
            return None
        if roles.role_of(g) is not None:
            return None  # an anchor found by what it does (sa/roles.py)
        if g.kind not in ("function", "method", "staticmethod"):
            return None
        decos = [ast.unparse(d) for d in node.decorator_list if (ast.unparse(d) != "staticmethod")]
        ctxmgr = decos in (["contextlib.contextmanager"], ["contextmanager"])
        if decos and not ctxmgr:
            return None
        a = node.args
        if a.vararg or a.kwarg:
            return None
        if g.cls is not None:
            # not overriding and not overridden
            for k in self.repo.mro(g.cls)[1:]:
                if hasattr(k, "methods") and (n in k.methods or n in k.props or n in k.class_attrs):
                    return None
            for k in self.repo.subclasses(g.cls):
                if n in k.methods or n in k.props or n in k.class_attrs:
                    return None
        body = _strip_doc(node.body)
        count = 0
        gen = False
        for x in _own(body):
            if isinstance(x, ast.stmt):
                count += 1
            if isinstance(x, (ast.Nonlocal, ast.FunctionDef, ast.AsyncFunctionDef, ast.ClassDef, ast.Await)):
                return None
            if isinstance(x, ast.Global) and not any(x is st for st in body):
                return None  # only declarations at the top level of the helper's body are carried over to the caller
            if isinstance(x, (ast.Yield, ast.YieldFrom)):
                gen = True
        if count > MAX_HELPER_STMTS or not body:
            return None
        if ctxmgr:
            # a generator-based context manager: one `yield` statement, not in a loop, no return
            ys = [x for x in _own(body) if isinstance(x, (ast.Yield, ast.YieldFrom))]
            if len(ys) != 1 or not isinstance(ys[0], ast.Yield) or any(isinstance(x, ast.Return) for x in _own(body)):
                return None
            if not any(isinstance(st, ast.Expr) and st.value is ys[0] for st in _own(body)):
                return None
            for lp in (x for x in _own(body) if isinstance(x, (ast.For, ast.While))):
                if any(y is ys[0] for y in ast.walk(lp)):
                    return None
            return "ctx"
        if gen:
            return "gen"
        if _as_single_expr(body) is not None:
            return "expr"
        if any(isinstance(x, ast.Return) and x.value is not None and not (isinstance(x.value, ast.Constant) and x.value.value is None)
               for x in _own(body)):
            return "func"
        return "proc"

    def shape(self, g):
        k = id(g)
        if k not in self._cand:
            self._cand[k] = self._shape(g)
        return self._cand[k]

    # -- driver
    def run(self):
        funcs = [f for m in self.repo.pkg_modules() for f in m.all_funcs]
        # 1. resolve every call of the package once, on the untouched trees
        for f in funcs:
            for n in self._own_nodes(f):
                if isinstance(n, ast.Call):
                    try:
                        hits, _ = self.typer.callees(f, n, False)
                    except Exception:
                        continue
                    if len(hits) == 1 and self.shape(hits[0]) is not None:
                        if isinstance(n.func, ast.Attribute) and isinstance(n.func.value, ast.Call):
                            continue  # super()._m(...) and similar
                        n._inl = hits[0]
        # helpers on a cycle of the helper call graph are functions in their own right, not extracted fragments
        import networkx as nx

        cg = nx.DiGraph()
        owner = {}
        for f in funcs:
            top = f
            while top.parent is not None:
                top = top.parent
            for n in self._own_nodes(f):
                g = getattr(n, "_inl", None) if isinstance(n, ast.Call) else None
                if g is not None:
                    cg.add_edge(id(top), id(g))
                    owner[id(g)] = g
        cyclic = set()
        for comp in nx.strongly_connected_components(cg):
            if len(comp) > 1 or any(cg.has_edge(x, x) for x in comp):
                cyclic |= comp
        for f in funcs:
            for n in self._own_nodes(f):
                if isinstance(n, ast.Call) and id(getattr(n, "_inl", None)) in cyclic:
                    self.log.append(f"{f.key}: {n._inl.key} not expanded (recursive helper)")
                    del n._inl
        for k in cyclic:
            if k in self._cand:
                self._cand[k] = None
        self.stats["helpers"] = sum(1 for v in self._cand.values() if v)
        # 2. rewrite bottom-up
        self._by_node = {id(f.node): f for f in funcs}
        for f in funcs:
            if isinstance(f.node, ast.FunctionDef) and f.parent is None:
                self.expand(f, 0)
        return self.stats

    @staticmethod
    def _own_nodes(f):
        from .index import own_nodes

        return own_nodes(f.node)

    def expand(self, f, depth):
        """Rewrite f's body in place (callees first)."""
        if id(f) in self._done or id(f) in self._active:
            return
        self._active.add(id(f))
        try:
            if isinstance(f.node, ast.FunctionDef):
                self._names = None
                f.node.body = self._block(f, f.node.body, depth)
                # expression-form calls that are left anywhere in the body (conditions, arguments, comprehensions, lambdas)
                self._expr_sites(f, f.node, depth)
                names = self._pending_globals.pop(id(f), None)
                if names:
                    decl = ast.Global(names=list(dict.fromkeys(names)))
                    ast.copy_location(decl, f.node.body[0])
                    decl._parent = f.node
                    at = 1 if (isinstance(f.node.body[0], ast.Expr) and isinstance(f.node.body[0].value, ast.Constant)
                               and isinstance(f.node.body[0].value.value, str)) else 0
                    f.node.body.insert(at, decl)
        finally:
            self._active.discard(id(f))
            self._done.add(id(f))

    # -- name hygiene
    def _caller_names(self, f) -> set[str]:
        top = f
        while top.parent is not None:
            top = top.parent
        names = self._introduced.setdefault(top.key, set())  # names of earlier expansions not yet spliced into the tree
        for n in ast.walk(top.node):
            if isinstance(n, ast.Name):
                names.add(n.id)
            elif isinstance(n, ast.arg):
                names.add(n.arg)
            elif isinstance(n, ast.ExceptHandler) and n.name:
                names.add(n.name)
        return names

    def _fresh(self, base: str, taken: set[str]) -> str:
        if base not in taken:
            taken.add(base)
            return base
        while True:
            self._counter += 1
            cand = f"{base}__i{self._counter}"
            if cand not in taken:
                taken.add(cand)
                return cand

    # -- statement-level expansion
    def _block(self, f, stmts, depth):
        out = []
        for s in stmts:
            out += self._stmt(f, s, depth)
        return out

    def _stmt(self, f, s, depth):
        # nested function definitions are functions of their own
        if isinstance(s, (ast.FunctionDef, ast.AsyncFunctionDef)):
            g = self._by_node.get(id(s))
            if g is not None and isinstance(s, ast.FunctionDef):
                s.body = self._block(g, s.body, depth)
                self._expr_sites(g, s, depth)
            return [s]
        if isinstance(s, ast.ClassDef):
            return [s]
        # `yield from gen(…)` as a statement, with gen a transparent generator helper, is `for t in gen(…): yield t` (nothing is sent
        # into it and its value is dropped): written that way it is expanded like any loop over the helper
        if isinstance(s, ast.Expr) and isinstance(s.value, ast.YieldFrom) and isinstance(s.value.value, ast.Call) and depth < MAX_DEPTH:
            g0 = getattr(s.value.value, "_inl", None)
            if g0 is not None and self.shape(g0) == "gen":
                tmp = self._fresh("item", self._caller_names(f))
                loop = ast.For(target=ast.Name(id=tmp, ctx=ast.Store()), iter=s.value.value,
                               body=[ast.Expr(value=ast.Yield(value=ast.Name(id=tmp, ctx=ast.Load())))], orelse=[])
                ast.copy_location(loop, s)
                ast.fix_missing_locations(loop)
                return self._stmt(f, loop, depth)
        call, ctx = None, None
        if isinstance(s, ast.Expr) and isinstance(s.value, ast.Call):
            call, ctx = s.value, ("expr", None)
        elif isinstance(s, ast.Assign) and isinstance(s.value, ast.Call) and len(s.targets) == 1:
            call, ctx = s.value, ("assign", s.targets[0])
        elif isinstance(s, ast.AnnAssign) and isinstance(s.value, ast.Call) and isinstance(s.target, ast.Name):
            call, ctx = s.value, ("assign", s.target)
        elif isinstance(s, ast.Return) and isinstance(s.value, ast.Call):
            call, ctx = s.value, ("return", None)
        elif isinstance(s, ast.For) and isinstance(s.iter, ast.Call) and not s.orelse:
            call, ctx = s.iter, ("for", s)
        elif isinstance(s, ast.With) and len(s.items) == 1 and isinstance(s.items[0].context_expr, ast.Call):
            call, ctx = s.items[0].context_expr, ("with", s)
        g = getattr(call, "_inl", None) if call is not None else None
        if g is not None and depth < MAX_DEPTH:
            shape = self.shape(g)
            ok = (ctx[0] == "for") == (shape == "gen") and (ctx[0] == "with") == (shape == "ctx") and shape != "expr"
            if ok:
                try:
                    new = self._expand_site(f, s, call, ctx, g, shape, depth)
                    self._record(f, g)
                    self.stats["sites"] += 1
                    self.log.append(f"{f.key}: {g.key} [{shape}/{ctx[0]}]")
                    return new
                except _Skip as e:
                    self.stats["skipped"] += 1
                    self.log.append(f"{f.key}: {g.key} not expanded ({e})")
        # `t = [E for x in it if c]` whose element expression calls a transparent helper that is more than one expression: the
        # comprehension is written out as the loop it abbreviates, so that the helper can be expanded in its body
        if depth < MAX_DEPTH and isinstance(s, (ast.Assign, ast.AnnAssign)) and isinstance(getattr(s, "value", None), ast.ListComp):
            tgt = s.targets[0] if isinstance(s, ast.Assign) and len(s.targets) == 1 else (s.target if isinstance(s, ast.AnnAssign) else None)
            lc = s.value
            if isinstance(tgt, ast.Name) and len(lc.generators) == 1 and not lc.generators[0].is_async and any(
                    getattr(c, "_inl", None) is not None and self.shape(c._inl) in ("func",) for c in self._unconditional_calls(lc.elt)):
                gen = lc.generators[0]
                taken = self._caller_names(f)
                bound = {x.id for x in ast.walk(gen.target) if isinstance(x, ast.Name)}
                # the comprehension's own variable is private to it: keep its name only if nothing else in f uses it
                outside = [x for x in ast.walk(f.node) if isinstance(x, ast.Name) and x.id in bound and not any(x is y for y in ast.walk(lc))]
                if not outside and not any(isinstance(x, ast.Name) and x.id == tgt.id for x in ast.walk(lc)):
                    init = ast.copy_location(ast.Assign(targets=[ast.Name(id=tgt.id, ctx=ast.Store())], value=ast.List(elts=[], ctx=ast.Load())), s)
                    app = ast.Expr(value=ast.Call(func=ast.Attribute(value=ast.Name(id=tgt.id, ctx=ast.Load()), attr="append", ctx=ast.Load()),
                                                  args=[lc.elt], keywords=[]))
                    body = [app]
                    for cond in reversed(gen.ifs):
                        body = [ast.If(test=cond, body=body, orelse=[])]
                    loop = ast.For(target=gen.target, iter=gen.iter, body=body, orelse=[])
                    for x in ast.walk(loop.target):
                        if isinstance(x, ast.Name):
                            x.ctx = ast.Store()
                    for st in (init, loop):
                        ast.copy_location(st, s)
                        ast.fix_missing_locations(st)
                    self.log.append(f"{f.key}: list comprehension written out as a loop")
                    return [init] + self._stmt(f, loop, depth)
        # a transparent helper called somewhere inside a simple statement (`x = helper(a).attr`, `f(helper(a))`, `if helper(a):`):
        # its result is first bound to a fresh local by a statement of its own, which is then expanded as above
        if depth < MAX_DEPTH and isinstance(s, (ast.Expr, ast.Assign, ast.AugAssign, ast.AnnAssign, ast.Return, ast.If)):
            hoisted = self._hoist(f, s, depth)
            if hoisted is not None:
                return hoisted
        # recurse into compound statements
        for fld in ("body", "orelse", "finalbody"):
            blk = getattr(s, fld, None)
            if isinstance(blk, list) and blk and isinstance(blk[0], ast.stmt):
                setattr(s, fld, self._block(f, blk, depth))
        if isinstance(s, ast.Try):
            for h in s.handlers:
                h.body = self._block(f, h.body, depth)
        if isinstance(s, ast.Match):
            for c in s.cases:
                c.body = self._block(f, c.body, depth)
        return [s]

    def _unconditional_calls(self, e):
        """Call nodes of an expression that are evaluated whenever the expression is, in evaluation order (nothing inside
        lambdas, comprehensions, conditional expressions or the later operands of and/or)."""
        out = []

        def walk(n):
            if isinstance(n, (ast.Lambda, ast.ListComp, ast.SetComp, ast.DictComp, ast.GeneratorExp, ast.IfExp, ast.NamedExpr)):
                if isinstance(n, ast.IfExp):
                    walk(n.test)
                return
            if isinstance(n, ast.BoolOp):
                walk(n.values[0])
                return
            if isinstance(n, ast.Compare) and len(n.ops) > 1:
                walk(n.left)
                walk(n.comparators[0])
                return
            for c in ast.iter_child_nodes(n):
                walk(c)
            if isinstance(n, ast.Call):
                out.append(n)

        walk(e)
        return out

    def _hoist(self, f, s, depth):
        if isinstance(s, ast.If):
            exprs = [s.test]
        elif isinstance(s, ast.Assign):
            exprs = [s.value] if all(isinstance(t, ast.Name) for t in s.targets) else []
        elif isinstance(s, ast.AugAssign):
            exprs = [s.value] if isinstance(s.target, ast.Name) else []
        elif isinstance(s, (ast.Expr, ast.Return, ast.AnnAssign)):
            exprs = [s.value] if s.value is not None else []
        else:
            exprs = []
        for e in exprs:
            calls = self._unconditional_calls(e)
            for c in calls:
                g = getattr(c, "_inl", None)
                if g is None or self.shape(g) in (None, "expr", "gen", "proc"):
                    continue
                if c is e and not isinstance(s, ast.If):
                    continue  # whole right-hand side: handled by the statement forms
                # only the first call in evaluation order may be moved in front of the statement; calls before it must be pure names
                inside = {id(x) for x in ast.walk(c)}
                if any(id(x) not in inside for x in calls[: calls.index(c)]):
                    return None
                tmp = self._fresh(f"{g.name.strip('_')}_result", self._caller_names(f))
                asg = ast.Assign(targets=[ast.Name(id=tmp, ctx=ast.Store())], value=c)
                ast.copy_location(asg, s)
                ast.fix_missing_locations(asg)
                name = ast.copy_location(ast.Name(id=tmp, ctx=ast.Load()), c)
                _replace_node(s, c, name)
                first = self._stmt(f, asg, depth)
                if len(first) == 1 and first[0] is asg:
                    # could not be expanded after all: put the call back
                    _replace_node(s, name, c)
                    return None
                return first + self._stmt(f, s, depth)
        return None

    def _bind(self, f, call, g, taken, body_nodes):
        """(substitution map, pre-assignments) for the parameters of g at this call."""
        a = g.node.args
        params = [x.arg for x in a.posonlyargs + a.args]
        kwonly = [x.arg for x in a.kwonlyargs]
        defaults: dict[str, ast.expr] = {}
        for p, d in zip(reversed(params), reversed(a.defaults)):
            defaults[p] = d
        for p, d in zip(kwonly, a.kw_defaults):
            if d is not None:
                defaults[p] = d
        if any(isinstance(x, ast.Starred) for x in call.args) or any(k.arg is None for k in call.keywords):
            raise _Skip("starred arguments")
        actual: dict[str, ast.expr] = {}
        pos = list(params)
        if g.cls is not None and g.kind == "method":
            if not isinstance(call.func, ast.Attribute):
                raise _Skip("method called without a receiver")
            actual[pos.pop(0)] = call.func.value
        if len(call.args) > len(pos):
            raise _Skip("too many positional arguments")
        for p, e in zip(pos, call.args):
            actual[p] = e
        for k in call.keywords:
            if k.arg in actual or k.arg not in params + kwonly:
                raise _Skip("keyword does not match")
            actual[k.arg] = k.value
        for p in params + kwonly:
            if p not in actual:
                if p not in defaults:
                    raise _Skip("missing argument")
                d = defaults[p]
                if not _simple(d):
                    raise _Skip("non-trivial default")
                actual[p] = d
        stored = {n.id for n in body_nodes if isinstance(n, ast.Name) and not isinstance(n.ctx, ast.Load)}
        uses: dict[str, int] = {}
        for n in body_nodes:
            if isinstance(n, ast.Name) and isinstance(n.ctx, ast.Load):
                uses[n.id] = uses.get(n.id, 0) + 1
        subst: dict[str, ast.expr | str] = {}
        pre = []
        for p in params + kwonly:
            e = actual[p]
            if isinstance(e, ast.Lambda) and p not in stored and not any(isinstance(x, (ast.Lambda, ast.NamedExpr)) for x in ast.walk(e.body)):
                subst[p] = e  # applied where the helper calls it (see _Subst.visit_Call)
            elif _simple(e) and p not in stored:
                subst[p] = e
            else:
                t = self._fresh(p, taken)
                subst[p] = t
                pre.append((t, e, uses.get(p, 0)))
        return subst, pre

    def _prepare(self, f, call, g, depth):
        """Expanded, renamed copy of g's body for this call: (pre-assignment statements, body statements)."""
        self.expand(g, depth + 1)  # callees first
        if id(g) in self._active:
            raise _Skip("recursive")
        body = clone(_strip_doc(g.node.body))
        # `global X` of the helper becomes a declaration of the caller (same module, and the caller has no local X)
        declared = [n for st in body if isinstance(st, ast.Global) for n in st.names]
        if declared:
            if g.module is not f.module or not isinstance(f.node, (ast.FunctionDef, ast.AsyncFunctionDef)) or f.parent is not None:
                raise _Skip("global declaration cannot be carried over")
            have = {n for st in ast.walk(f.node) if isinstance(st, ast.Global) for n in st.names}
            mine = {n.id for n in self._own_nodes(f) if isinstance(n, ast.Name)} | {x.arg for x in f.node.args.posonlyargs + f.node.args.args + f.node.args.kwonlyargs}
            for name in declared:
                if name not in have and name in mine:
                    raise _Skip(f"global {name} is a local name of the caller")
            body = [st for st in body if not isinstance(st, ast.Global)]
            have |= set(self._pending_globals.get(id(f), ()))
            missing = [n for n in dict.fromkeys(declared) if n not in have]
            if missing:
                # declared at the top of the caller once its body has been rewritten (see expand)
                self._pending_globals.setdefault(id(f), []).extend(missing)
        nodes = list(_own(body))
        if any(isinstance(n, ast.Call) and getattr(n, "_inl", None) is g for n in nodes):
            raise _Skip("recursive")
        taken = self._caller_names(f)
        subst, pre = self._bind(f, call, g, taken, nodes)
        # locals of the helper are renamed apart from the caller's names
        a = g.node.args
        params = {x.arg for x in a.posonlyargs + a.args + a.kwonlyargs}
        local = set()
        for n in nodes:
            if isinstance(n, ast.Name) and not isinstance(n.ctx, ast.Load):
                local.add(n.id)
            elif isinstance(n, ast.arg):
                local.add(n.arg)
            elif isinstance(n, ast.ExceptHandler) and n.name:
                local.add(n.name)
        local -= set(declared)
        caller_locals = self._locals_of(f) - set(declared)
        for n in nodes:
            if isinstance(n, ast.Name) and isinstance(n.ctx, ast.Load) and n.id not in local and n.id not in params:
                # free name of the helper: must mean the same thing at the call site
                if n.id in caller_locals:
                    raise _Skip(f"free name {n.id} is a local of the caller")
                if g.module is not f.module and n.id not in _BUILTINS:
                    gm, fm = g.module, f.module
                    if n.id in gm.imports:
                        if fm.imports.get(n.id) != gm.imports[n.id]:
                            raise _Skip(f"free name {n.id} is bound differently in the caller's module")
                    elif fm.imports.get(n.id) != f"{gm.name}.{n.id}":
                        raise _Skip(f"free name {n.id} is not visible in the caller's module")
        for name in sorted(local - params):
            subst[name] = self._fresh(name, taken)
        tr = _Subst(subst)
        body = [tr.visit(s) for s in body]
        pre_stmts = []
        for t, e, _n in pre:
            st = ast.Assign(targets=[ast.Name(id=t, ctx=ast.Store())], value=clone(e))
            ast.copy_location(st, call)
            ast.fix_missing_locations(st)
            pre_stmts.append(st)
        return pre_stmts, body

    def _locals_of(self, f) -> set[str]:
        out = set()
        node = f.node
        if isinstance(node, (ast.FunctionDef, ast.AsyncFunctionDef, ast.Lambda)):
            a = node.args
            out |= {x.arg for x in a.posonlyargs + a.args + a.kwonlyargs}
            if a.vararg:
                out.add(a.vararg.arg)
            if a.kwarg:
                out.add(a.kwarg.arg)
        for n in self._own_nodes(f):
            if isinstance(n, ast.Name) and not isinstance(n.ctx, ast.Load):
                out.add(n.id)
        if f.parent is not None:
            out |= self._locals_of(f.parent)
        return out

    def _expand_site(self, f, s, call, ctx, g, shape, depth):
        pre, body = self._prepare(f, call, g, depth)
        kind, target = ctx
        if kind == "return":
            if not _terminates(body):
                body = body + [ast.copy_location(ast.Return(value=None), s)]
            new = pre + body
        elif kind == "expr":
            def mk(v):
                if v is None or isinstance(v, (ast.Constant, ast.Name)):
                    return []
                return [ast.copy_location(ast.Expr(value=v), v)]

            new = pre + (_nest(body, mk) or [ast.copy_location(ast.Pass(), s)])
        elif kind == "assign":
            if shape == "proc":
                raise _Skip("procedure used for its value")

            def mk(v):
                st = ast.Assign(targets=[clone(target)], value=v if v is not None else ast.Constant(value=None))
                return [ast.copy_location(st, v if v is not None else s)]

            if not _terminates(body):
                body = body + [ast.copy_location(ast.Return(value=None), s)]
            new = pre + _nest(body, mk)
        elif kind == "with":
            # `with helper(...) as t: BODY` for a generator-based context manager: BODY runs where the manager yields (an
            # exception in BODY is raised there, so a try/finally around the yield protects BODY exactly as it does at run time)
            w = target
            for n in self._loop_level(w.body):
                if isinstance(n, (ast.Break, ast.Continue, ast.Return)):
                    raise _Skip("return/break/continue in the with body")
            inner = self._block(f, w.body, depth)
            as_target = w.items[0].optional_vars

            class Yw(ast.NodeTransformer):
                def visit_Expr(self_, node):
                    if isinstance(node.value, ast.Yield):
                        out = []
                        if as_target is not None:
                            asg = ast.Assign(targets=[clone(as_target)], value=node.value.value if node.value.value is not None else ast.Constant(value=None))
                            out.append(ast.copy_location(asg, node))
                        return out + inner
                    return node

                def visit_FunctionDef(self_, node):
                    return node

                def visit_Lambda(self_, node):
                    return node

            new = pre + [x for st in body for x in _as_list(Yw().visit(st))]
        else:  # for t in gen(...): BODY
            loop = target
            for n in self._loop_level(loop.body):
                if isinstance(n, (ast.Break, ast.Continue)):
                    raise _Skip("break/continue in the consuming loop")
            consumer = self._block(f, loop.body, depth)

            class Y(ast.NodeTransformer):
                def visit_Expr(self_, node):
                    v = node.value
                    if isinstance(v, ast.Yield):
                        asg = ast.Assign(targets=[clone(loop.target)], value=v.value if v.value is not None else ast.Constant(value=None))
                        ast.copy_location(asg, node)
                        return [asg] + clone(consumer)
                    if isinstance(v, ast.YieldFrom):
                        lp = ast.For(target=clone(loop.target), iter=v.value, body=clone(consumer), orelse=[])
                        ast.copy_location(lp, node)
                        return [lp]
                    return node

                def visit_FunctionDef(self_, node):
                    return node

                def visit_Lambda(self_, node):
                    return node

            # every yield of the helper is a statement of its own (checked before the consumer - which may yield itself - is put in)
            stmt_yields = {id(n.value) for n in _own(body) if isinstance(n, ast.Expr) and isinstance(n.value, (ast.Yield, ast.YieldFrom))}
            if any(isinstance(n, (ast.Yield, ast.YieldFrom)) and id(n) not in stmt_yields for n in _own(body)):
                raise _Skip("yield used as an expression")
            body = [x for st in body for x in _as_list(Y().visit(st))]
            new = pre + _nest(body, lambda v: [])
            if not new:
                new = [ast.copy_location(ast.Pass(), s)]
        for st in new:
            ast.fix_missing_locations(st)
        return new

    @staticmethod
    def _loop_level(stmts):
        """Nodes of a loop body that are not inside a nested loop or function."""
        stack = list(reversed(stmts))
        while stack:
            n = stack.pop()
            yield n
            if isinstance(n, (ast.For, ast.While, ast.AsyncFor, ast.FunctionDef, ast.AsyncFunctionDef, ast.ClassDef, ast.Lambda)):
                continue
            for c in ast.iter_child_nodes(n):
                stack.append(c)

    # -- expression-form expansion
    def _expr_sites(self, f, root, depth):
        inl = self

        class E(ast.NodeTransformer):
            def visit_FunctionDef(self_, node):
                if node is root:
                    self_.generic_visit(node)
                return node  # nested defs are handled as functions of their own

            def visit_ClassDef(self_, node):
                return node

            def visit_Call(self_, node):
                self_.generic_visit(node)
                g = getattr(node, "_inl", None)
                if g is None or inl.shape(g) != "expr" or depth >= MAX_DEPTH:
                    return node
                try:
                    inl.expand(g, depth + 1)
                    if id(g) in inl._active:
                        raise _Skip("recursive")
                    expr = _as_single_expr(g.node.body)
                    if expr is None:
                        raise _Skip("no longer a single expression")
                    nodes = list(ast.walk(expr))
                    if any(isinstance(n, (ast.NamedExpr, ast.Lambda)) for n in nodes):
                        raise _Skip("binding constructs in the expression")
                    taken = inl._caller_names(f)
                    subst, pre = inl._bind(f, node, g, taken, [n for n in nodes])
                    for t, e, uses in pre:
                        if uses != 1:
                            raise _Skip("argument with possible effects not used exactly once")
                        subst[[k for k, v in subst.items() if v == t][0]] = e
                    a = g.node.args
                    params = {x.arg for x in a.posonlyargs + a.args + a.kwonlyargs}
                    comp_locals = {n.id for n in nodes if isinstance(n, ast.Name) and not isinstance(n.ctx, ast.Load)}
                    caller_locals = inl._locals_of(f)
                    for n in nodes:
                        if isinstance(n, ast.Name) and isinstance(n.ctx, ast.Load) and n.id not in params and n.id not in comp_locals:
                            if n.id in caller_locals:
                                raise _Skip(f"free name {n.id} is a local of the caller")
                            if g.module is not f.module and n.id not in _BUILTINS:
                                gm, fm = g.module, f.module
                                if n.id in gm.imports:
                                    if fm.imports.get(n.id) != gm.imports[n.id]:
                                        raise _Skip("free name bound differently")
                                elif fm.imports.get(n.id) != f"{gm.name}.{n.id}":
                                    raise _Skip("free name not visible")
                    for name in sorted(comp_locals - params):
                        subst[name] = inl._fresh(name, taken)
                    new = _Subst(subst).visit(expr)
                    ast.copy_location(new, node)
                    ast.fix_missing_locations(new)
                    inl.stats["expr_sites"] += 1
                    inl._record(f, g)
                    inl.log.append(f"{f.key}: {g.key} [expr]")
                    return new
                except _Skip as e:
                    inl.stats["skipped"] += 1
                    inl.log.append(f"{f.key}: {g.key} not expanded ({e})")
                    return node

        E().visit(root)


def _replace_node(root, old, new):
    for parent in ast.walk(root):
        for fld, val in ast.iter_fields(parent):
            if val is old:
                setattr(parent, fld, new)
                return True
            if isinstance(val, list):
                for i, x in enumerate(val):
                    if x is old:
                        val[i] = new
                        return True
    return False


def _as_list(x):
    return x if isinstance(x, list) else [x]


def _literal_constant(m, e, depth=0):
    """A set / tuple display of constants and dotted names that a module-level constant expression denotes, or None:
    `{A.X, A.Y}`, `(…)`, `frozenset({…})`, `frozenset((…))`, and unions `C1 | C2` of such constants."""
    if depth > 4:
        return None
    if isinstance(e, ast.Call) and isinstance(e.func, ast.Name) and e.func.id in ("frozenset", "set", "tuple") and len(e.args) == 1 and not e.keywords:
        inner = _literal_constant(m, e.args[0], depth + 1)
        if inner is None:
            return None
        if e.func.id == "tuple":
            return ast.Tuple(elts=inner.elts, ctx=ast.Load())
        return ast.Set(elts=inner.elts)
    if isinstance(e, (ast.Set, ast.Tuple, ast.List)):
        if all(isinstance(x, ast.Constant) or (isinstance(x, (ast.Attribute, ast.Name)) and _dotted(x)) for x in e.elts) and e.elts:
            return e
        return None
    if isinstance(e, ast.BinOp) and isinstance(e.op, ast.BitOr):
        a, b = _literal_constant(m, e.left, depth + 1), _literal_constant(m, e.right, depth + 1)
        if a is None or b is None or isinstance(a, ast.Tuple) or isinstance(b, ast.Tuple):
            return None
        seen, elts = set(), []
        for x in list(a.elts) + list(b.elts):
            k = ast.dump(x)
            if k not in seen:
                seen.add(k)
                elts.append(x)
        return ast.Set(elts=elts)
    if isinstance(e, ast.Name) and e.id in m.assigns:
        return _literal_constant(m, m.assigns[e.id], depth + 1)
    return None


def _dotted(x) -> bool:
    while isinstance(x, ast.Attribute):
        x = x.value
    return isinstance(x, ast.Name)


def expand_constants(repo) -> list[str]:
    """Second part of the normal form: a private module-level constant the analyser has no name for, bound once to a literal
    collection of enum members / constants and never mutated, is written out where it is read inside the functions of its
    module (`dtype in _FOUR_BIT_TYPES` reads as `dtype in {DataType.INT4, …}`) - extract-constant / inline-constant
    refactorings do not change a verdict."""
    log = []
    for m in repo.pkg_modules():
        counts: dict[str, int] = {}
        for st in ast.walk(m.tree):
            if isinstance(st, (ast.Assign, ast.AnnAssign, ast.AugAssign)):
                for t in (st.targets if isinstance(st, ast.Assign) else [st.target]):
                    for x in ast.walk(t):
                        if isinstance(x, ast.Name):
                            counts[x.id] = counts.get(x.id, 0) + 1
            elif isinstance(st, ast.Global):
                for n in st.names:
                    counts[n] = counts.get(n, 0) + 2
        consts = {}
        for name, value in m.assigns.items():
            if not name.startswith("_") or name.startswith("__") or _known_to_analyser(name) or counts.get(name, 0) != 1:
                continue
            lit = _literal_constant(m, value)
            if lit is None:
                continue
            # never mutated: no method call on it that could change it
            mutated = any(isinstance(c, ast.Call) and isinstance(c.func, ast.Attribute) and isinstance(c.func.value, ast.Name) and c.func.value.id == name
                          and c.func.attr in ("add", "update", "discard", "remove", "clear", "pop", "append", "extend", "insert", "sort")
                          for c in ast.walk(m.tree))
            if not mutated:
                consts[name] = lit
        if not consts:
            continue
        for f in m.all_funcs:
            if not isinstance(f.node, (ast.FunctionDef, ast.AsyncFunctionDef)) or f.parent is not None:
                continue
            local = {x.id for x in ast.walk(f.node) if isinstance(x, ast.Name) and not isinstance(x.ctx, ast.Load)} | {a.arg for a in ast.walk(f.node) if isinstance(a, ast.arg)}
            names = {k: v for k, v in consts.items() if k not in local}
            if not names:
                continue
            hits = [x for x in ast.walk(f.node) if isinstance(x, ast.Name) and x.id in names and isinstance(x.ctx, ast.Load)]
            for x in hits:
                if _replace_node(f.node, x, ast.copy_location(clone(names[x.id]), x)):
                    log.append(f"{f.key}: constant {x.id} written out")
            if hits:
                ast.fix_missing_locations(f.node)
    return log


def expand_own_properties(repo) -> list[str]:
    """Read-only properties of private classes that are one pure expression over `self` (`erased` → `self.value is None`) are
    written out where the class's own methods read them through `self`: the method then says what it tests, whichever spelling
    its author chose.  Properties with a setter / deleter, overridden ones and reads through other receivers stay as they are."""
    log = []
    for m in repo.pkg_modules():
        for c in m.classes.values():
            if not c.name.startswith("_") or getattr(c, "external", False):
                continue
            for pname, acc in c.props.items():
                if set(acc) != {"get"}:
                    continue
                g = acc["get"]
                if any(pname in k.props or pname in k.methods or pname in k.class_attrs for k in repo.subclasses(c)):
                    continue
                e = _as_single_expr(g.node.body)
                if e is None or not _pure_read(e) or not g.params:
                    continue
                selfname = g.params[0]
                names = {x.id for x in ast.walk(e) if isinstance(x, ast.Name)}
                if not names <= {selfname, "None", "True", "False"}:
                    continue
                n_sites = 0
                for f in c.methods.values():
                    if f is g or not f.params or isinstance(f.node, ast.Lambda):
                        continue
                    me = f.params[0]
                    for x in list(ast.walk(f.node)):
                        if isinstance(x, ast.Attribute) and x.attr == pname and isinstance(x.ctx, ast.Load) and isinstance(x.value, ast.Name) and x.value.id == me:
                            new = clone(e)
                            for y in ast.walk(new):
                                if isinstance(y, ast.Name) and y.id == selfname:
                                    y.id = me
                            par = getattr(x, "_parent", None)
                            if par is None:
                                continue
                            ast.copy_location(new, x)
                            if _replace_node(par, x, new):
                                for y in ast.walk(new):
                                    for ch in ast.iter_child_nodes(y):
                                        ch._parent = y
                                new._parent = par
                                n_sites += 1
                if n_sites:
                    log.append(f"{c.key}.{pname}: written out at {n_sites} read(s) through self")
    return log


def split_name_tuple_assignments(repo) -> int:
    """`a, b = (x, y)` with plain names (or constants) on the right that are none of the targets is `a = x; b = y`: the form an
    expanded helper that returns several values leaves behind - written out so that each name has one plain definition."""
    n = 0
    for m in repo.pkg_modules():
        for parent in ast.walk(m.tree):
            for fld in ("body", "orelse", "finalbody"):
                blk = getattr(parent, fld, None)
                if not isinstance(blk, list):
                    continue
                i = 0
                while i < len(blk):
                    st = blk[i]
                    if isinstance(st, ast.Assign) and len(st.targets) == 1 and isinstance(st.targets[0], ast.Tuple) and isinstance(st.value, ast.Tuple) \
                            and len(st.targets[0].elts) == len(st.value.elts) and all(isinstance(t, ast.Name) for t in st.targets[0].elts) \
                            and all(isinstance(v, (ast.Name, ast.Constant)) for v in st.value.elts):
                        tnames = {t.id for t in st.targets[0].elts}
                        if not any(isinstance(v, ast.Name) and v.id in tnames for v in st.value.elts):
                            new = []
                            for t, v in zip(st.targets[0].elts, st.value.elts):
                                a = ast.Assign(targets=[t], value=v)
                                ast.copy_location(a, st)
                                a._parent = parent
                                t._parent = a
                                v._parent = a
                                new.append(a)
                            blk[i:i + 1] = new
                            n += 1
                            i += len(new)
                            continue
                    i += 1
    return n


def fold_constant_tests(repo) -> int:
    """`X if True else Y`, `True and X`, `not False`, `if True: …` - what is left where a helper was expanded with a literal argument
    (`self._walk(forward=True)`) - are written as the branch that is taken, so that the expanded code reads like the specialised one."""
    n = [0]

    class Fold(ast.NodeTransformer):
        def visit_IfExp(self, node):
            node = self.generic_visit(node)
            if isinstance(node.test, ast.Constant) and isinstance(node.test.value, bool):
                n[0] += 1
                return node.body if node.test.value else node.orelse
            return node

        def visit_BoolOp(self, node):
            node = self.generic_visit(node)
            if not any(isinstance(v, ast.Constant) and isinstance(v.value, bool) for v in node.values):
                return node
            vals = []
            for v in node.values:
                if isinstance(v, ast.Constant) and isinstance(v.value, bool):
                    if isinstance(node.op, ast.And) and not v.value:
                        vals.append(v)
                        break
                    if isinstance(node.op, ast.Or) and v.value:
                        vals.append(v)
                        break
                    continue
                vals.append(v)
            n[0] += 1
            if not vals:
                return ast.copy_location(ast.Constant(value=isinstance(node.op, ast.And)), node)
            return vals[0] if len(vals) == 1 else ast.copy_location(ast.BoolOp(op=node.op, values=vals), node)

        def visit_UnaryOp(self, node):
            node = self.generic_visit(node)
            if isinstance(node.op, ast.Not) and isinstance(node.operand, ast.Constant) and isinstance(node.operand.value, bool):
                n[0] += 1
                return ast.copy_location(ast.Constant(value=not node.operand.value), node)
            return node

        def visit_If(self, node):
            node = self.generic_visit(node)
            if isinstance(node.test, ast.Constant) and isinstance(node.test.value, bool):
                n[0] += 1
                keep = node.body if node.test.value else node.orelse
                return keep or [ast.copy_location(ast.Pass(), node)]
            return node

    for m in repo.pkg_modules():
        for top in m.tree.body:
            if isinstance(top, (ast.FunctionDef, ast.ClassDef)):
                Fold().visit(top)
        ast.fix_missing_locations(m.tree)
    return n[0]


def expand_helpers(repo) -> dict:
    """Rewrite the trees of `repo` (an index built WITHOUT this pass) in place; returns statistics."""
    from .types import Typer

    prop_log = expand_own_properties(repo)
    inl = Inliner(repo, Typer(repo, None))
    stats = inl.run()
    inl.log += prop_log
    n_fold = fold_constant_tests(repo) if stats.get("sites") else 0
    if n_fold:
        inl.log.append(f"{n_fold} constant test(s) left by literal arguments folded")
    n_split = split_name_tuple_assignments(repo)
    if n_split:
        inl.log.append(f"{n_split} tuple assignment(s) of plain names written as single assignments")
    inl.log += expand_constants(repo)
    stats["log"] = inl.log
    stats["into"] = {k: sorted(v) for k, v in inl.into.items()}
    # helpers of which some call is still a call (shape not handled, recursion, name clash …)
    left = set()
    for m in repo.pkg_modules():
        for n in ast.walk(m.tree):
            g = getattr(n, "_inl", None) if isinstance(n, ast.Call) else None
            if g is not None:
                left.add(g.key)
    # … or that are mentioned otherwise than as the callee of a call (handed on as a callback, stored in a table): those
    # stay functions in their own right as well
    helper_names: dict[str, list] = {}
    for keys in inl.into.values():
        for k in keys:
            helper_names.setdefault(k.rsplit(".", 1)[-1].rsplit(":", 1)[-1], []).append(k)
    if helper_names:
        for m in repo.pkg_modules():
            callees = {id(n.func) for n in ast.walk(m.tree) if isinstance(n, ast.Call)}
            for n in ast.walk(m.tree):
                nm = n.id if isinstance(n, ast.Name) else (n.attr if isinstance(n, ast.Attribute) else None)
                if nm in helper_names and id(n) not in callees and isinstance(getattr(n, "ctx", None), ast.Load):
                    left.update(helper_names[nm])
    stats["still_called"] = sorted(left)
    return stats
