"""CLI driver: /verif/check <ID> --tier quick|thorough [--repo DIR] [--replay FILE]."""

from __future__ import annotations

import argparse
import importlib
import json
import os
import sys
import time
import traceback

from .index import AnalysisError, Repo
from .proto_schema import Schema
from .report import Ctx, load_known, match_known, write_evidence, write_replay
from .types import Typer

ALL = [f"C{i:02d}" for i in range(1, 21)]


def load_rules(prop: str):
    return importlib.import_module(f"sa.rules.{prop.lower()}")


def analyse(prop: str, repo_root: str, tier: str):
    """Run one property's rules. Returns (ctx, module)."""
    mod = load_rules(prop)
    repo = Repo(repo_root)
    schema = Schema()
    typer = Typer(repo, schema)
    ctx = Ctx(prop, repo, typer, schema, tier, dict(mod.RULES))
    aborted = None
    try:
        mod.run(ctx)
    except AnalysisError as e:
        # an anchor or idiom the rules need was not found.  If violations were already found they are the report (the same
        # edit usually explains both); otherwise the run cannot give a verdict
        if not _has_new(ctx):
            raise
        aborted = str(e)
    # instance floors: a rule that examined too few instances would pass vacuously. A floor shortfall is an
    # ANALYSIS-ERROR unless the run already found violations (then those are the report).
    ctx.floor_errors = [f"analysis stopped early: {aborted}"] if aborted else []
    floors = getattr(mod, "FLOORS", {})
    for rule, minimum in floors.items():
        try:
            ctx.floor(rule, minimum)
        except AnalysisError as e:
            ctx.floor_errors.append(str(e))
    for rule in mod.RULES:
        if ctx.counts.get(rule, 0) == 0:
            ctx.floor_errors.append(f"{prop}-{rule}: no instance examined (rule would pass vacuously)")
    if ctx.floor_errors and not _has_new(ctx):
        # nothing but recorded findings was seen and some rule could not do its work: no verdict for the rest
        raise AnalysisError("; ".join(ctx.floor_errors))
    return ctx, mod


def _has_new(ctx) -> bool:
    known = load_known()["known"]
    return any(match_known(f, known) is None for f in ctx.findings)


def main(argv=None) -> int:
    ap = argparse.ArgumentParser(prog="check")
    ap.add_argument("prop")
    ap.add_argument("--tier", default=os.environ.get("VERIF_TIER", "quick"), choices=["quick", "thorough"])
    ap.add_argument("--repo", default=os.environ.get("VERIF_REPO", "/repo"))
    ap.add_argument("--replay", default=None)
    ap.add_argument("--no-evidence", action="store_true")
    ap.add_argument("--no-selftest", action="store_true")
    args = ap.parse_args(argv)
    prop = args.prop.upper()
    seed = int(os.environ.get("VERIF_SEED", "0") or 0)
    t0 = time.time()
    if prop == "ALL":
        rc = 0
        for p in ALL:
            r = main([p, "--tier", args.tier, "--repo", args.repo] + (["--no-evidence"] if args.no_evidence else []))
            rc = max(rc, r)
        return rc
    try:
        ctx, mod = analyse(prop, args.repo, args.tier)
        extra = {}
        if args.tier == "thorough" and not args.no_selftest:
            from . import selftest

            extra["selftest"] = selftest.run(prop, args.repo)
    except AnalysisError as e:
        print(f"ANALYSIS-ERROR property={prop} {e}")
        return 2
    except Exception:  # analyser bug: never report it as a violation
        traceback.print_exc()
        print(f"ANALYSIS-ERROR property={prop} internal error in the analyser")
        return 2

    known = load_known()
    if args.replay:
        with open(args.replay, encoding="utf-8") as fh:
            want = json.load(fh)
        hit = [f for f in ctx.findings if f.key == want.get("key")]
        if hit:
            print(f"REPLAY: finding still present: {hit[0].short()}")
            print(f"VIOLATION property={prop} replay={args.replay}")
            return 1
        print("REPLAY: finding no longer reported on this tree")
        return 0

    n_known = 0
    new = []
    for f in ctx.findings:
        k = match_known(f, known["known"])
        if k is not None:
            n_known += 1
            print(f"KNOWN-FINDING: property={prop} {f.rule} {f.symbol} {f.construct} — {k.get('why', f.detail)}")
        else:
            new.append(f)
    if ctx.floor_errors and not new:
        # only known findings were seen and some rule fell below its floor: cannot vouch for the rest
        print(f"ANALYSIS-ERROR property={prop} " + "; ".join(ctx.floor_errors))
        return 2
    for fe in ctx.floor_errors:
        print(f"  note: {fe}")
    wall = time.time() - t0
    if not args.no_evidence and os.path.realpath(args.repo) == os.path.realpath("/repo"):
        write_evidence(ctx, mod, wall, seed, len(new), n_known, extra)
    total = len(ctx.obligations)
    okc = sum(1 for o in ctx.obligations if o["ok"])
    print(
        f"{prop} [{args.tier}] rules={len(ctx.rules)} obligations={total} hold={okc} "
        f"known={n_known} new={len(new)} wall={wall:.2f}s "
        f"(modules={sum(1 for _ in ctx.repo.pkg_modules())}, resolver={ctx.typer.stats})"
    )
    for f in new:
        path = write_replay(f)
        print(f"  {f.short()}")
        for step in f.path:
            print(f"      via {step}")
        print(f"VIOLATION property={prop} replay={path}")
    return 1 if new else 0


if __name__ == "__main__":
    sys.exit(main())
