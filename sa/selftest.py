"""Checker self-test (thorough tier): seeded variants must be reported, benign twins must be silent.

Each variant is an exact-substring edit of one source file applied to a scratch copy of the *current*
/repo/src/onnx_ir (outside /repo and /verif, removed afterwards).  The edited file must still compile.
A variant whose anchor text no longer exists is counted as not-applicable; if too many are, the
self-test fails (ANALYSIS-ERROR) instead of passing vacuously.
"""

from __future__ import annotations

import importlib
import multiprocessing
import os
import shutil
import tempfile

from .index import AnalysisError


class V:
    def __init__(self, name, file, old, new, rule=None, twin=False, count=1, patch=None):
        self.name = name
        self.file = file  # relative to src/onnx_ir
        self.old = old
        self.new = new
        self.rule = rule  # expected rule id (None for twins)
        self.twin = twin
        self.count = count
        self.patch = patch  # path of a unified diff (relative to the repository root) applied instead of old/new


def _seed_variants(prop: str) -> list:
    """Every stored seeded change of the property (/verif/seeded/<id>/patch.diff) is a self-test variant: the patch is
    applied to the scratch copy and must be reported (seeds recorded as not detected are skipped)."""
    import glob
    import json

    out = []
    base = os.path.join(os.path.dirname(os.path.dirname(os.path.abspath(__file__))), "seeded")
    for meta in sorted(glob.glob(os.path.join(base, "*", "meta.json"))):
        try:
            with open(meta, encoding="utf-8") as fh:
                m = json.load(fh)
        except Exception:
            continue
        det = str(m.get("detected_by", "")).upper()
        # a seed written against one property can sit in the mechanism of another (a journaling wrapper that breaks sort()): it is
        # replayed under the property whose check reports it (`replay_under`)
        if (m.get("replay_under") or m.get("property")) != prop or det.startswith("NOT DETECTED"):
            continue
        # a seed that a later fix: commit of the library made harmless (its demonstration passes) is a twin: it must be silent
        neutral = det.startswith("NEUTRALISED")
        out.append(V(f"stored seed {m['id']}" + (" (neutralised by a later fix: twin)" if neutral else ""), None, None, None, None, twin=neutral,
                     patch=os.path.join(os.path.dirname(meta), "patch.diff")))
    return out


def _twin_variants(prop: str) -> list:
    """Every stored benign refactoring (/verif/twins/<id>/patch.diff: behaviour-preserving changes written by independent
    sub-agents) is a twin for its own property and for every property listed under `also` in its meta.json: the patch is
    applied to the scratch copy and no new finding and no analysis error may appear."""
    import glob
    import json

    out = []
    base = os.path.join(os.path.dirname(os.path.dirname(os.path.abspath(__file__))), "twins")
    for meta in sorted(glob.glob(os.path.join(base, "*", "meta.json"))):
        try:
            with open(meta, encoding="utf-8") as fh:
                m = json.load(fh)
        except Exception:
            continue
        if m.get("property") != prop and prop not in m.get("also", []):
            continue
        out.append(V(f"stored twin {m['id']} (independent behaviour-preserving refactoring)", None, None, None, None, twin=True,
                     patch=os.path.join(os.path.dirname(meta), "patch.diff")))
    return out


def _variants(prop: str) -> list[V]:
    mod = importlib.import_module("sa.selftest_variants")
    return list(mod.VARIANTS.get(prop, [])) + _seed_variants(prop) + _twin_variants(prop)


def _findings(prop: str, root: str) -> dict[str, str]:
    from .driver import analyse

    ctx, _ = analyse(prop, root, "quick")
    return {f.key: f.rule for f in ctx.findings}


def _copy_tree(repo_root: str, dst: str) -> None:
    src = os.path.join(repo_root, "src", "onnx_ir")
    shutil.copytree(src, os.path.join(dst, "src", "onnx_ir"), ignore=shutil.ignore_patterns("*_test.py", "__pycache__"))


def _run_one(args):
    prop, repo_root, i, base = args
    v = _variants(prop)[i]
    tmp = tempfile.mkdtemp(prefix="irpy-sa-")
    try:
        _copy_tree(repo_root, tmp)
        if v.patch is not None:
            import subprocess

            r = subprocess.run(["git", "apply", "--whitespace=nowarn", v.patch], cwd=tmp, capture_output=True, text=True)
            if r.returncode != 0:
                return (v.name, "not-applicable", "patch does not apply to the current tree: " + r.stderr.strip()[:120])
            try:
                got = _findings(prop, tmp)
            except AnalysisError as e:
                return (v.name, "detected-as-analysis-error" if not v.twin else "twin-analysis-error", str(e)[:200])
            new = {k: r_ for k, r_ in got.items() if k not in base}
            if v.twin:
                return (v.name, "silent" if not new else "FALSE-ALARM", "; ".join(sorted(new))[:300])
            return (v.name, "detected", sorted(new)[0][:200]) if new else (v.name, "MISSED", "no new finding")
        path = os.path.join(tmp, "src", "onnx_ir", v.file)
        with open(path, encoding="utf-8") as fh:
            src = fh.read()
        olds = v.old if isinstance(v.old, (list, tuple)) else [v.old]
        news = v.new if isinstance(v.new, (list, tuple)) else [v.new]
        if any(src.count(o) < 1 for o in olds):
            return (v.name, "not-applicable", "anchor text not found")
        new_src = src
        for o, n in zip(olds, news):
            new_src = new_src.replace(o, n, v.count)
        try:
            compile(new_src, path, "exec")
        except SyntaxError as e:
            return (v.name, "broken-variant", f"does not compile: {e}")
        with open(path, "w", encoding="utf-8") as fh:
            fh.write(new_src)
        try:
            got = _findings(prop, tmp)
        except AnalysisError as e:
            # an analysis error on a seeded variant is a (coarse) detection; on a twin it is a failure
            return (v.name, "detected-as-analysis-error" if not v.twin else "twin-analysis-error", str(e)[:200])
        new = {k: r for k, r in got.items() if k not in base}
        if v.twin:
            # a benign refactoring may move code (and with it an already known defect) into another function: a twin
            # is silent when it adds no (rule, construct) that the clean tree does not already report
            def rc(k):
                parts = k.split("|", 3)
                return (parts[1], parts[3]) if len(parts) == 4 else k

            base_rc = {rc(k) for k in base}
            new = {k: r for k, r in new.items() if rc(k) not in base_rc}
            return (v.name, "silent" if not new else "FALSE-ALARM", "; ".join(sorted(new))[:300])
        hit = [k for k, r in new.items() if v.rule is None or r == v.rule]
        if hit:
            return (v.name, "detected", hit[0][:200])
        return (v.name, "MISSED", ("other rules fired: " + "; ".join(sorted(new))[:200]) if new else "no new finding")
    finally:
        shutil.rmtree(tmp, ignore_errors=True)


def _run_alpha(args):
    """Generic twin: rename every local variable of the package (and re-emit it with ast.unparse). The rules must report
    the same (rule, symbol) multiset and examine the same number of instances per rule as on the current tree."""
    import collections

    from .driver import analyse
    from .metamorph import alpha_rename_tree, extract_returns_tree, insert_noop_tree, invert_ifs_tree, param_rename_tree

    prop, repo_root, which = args
    name = {"alpha": "twin: every local variable renamed, package re-emitted without comments (metamorphic)",
            "noop": "twin: a new local at the top of every function and an unused helper in every module (metamorphic)",
            "ret": "twin: every returned expression first bound to a local (extract-variable, metamorphic)",
            "param": "twin: positional parameters of every private and nested function renamed (metamorphic)",
            "inv": "twin: the arms of every plain if/else swapped and the test negated (metamorphic)"}[which]
    tmp = tempfile.mkdtemp(prefix="irpy-sa-")
    try:
        _copy_tree(repo_root, tmp)
        stats = {"alpha": alpha_rename_tree, "noop": insert_noop_tree, "ret": extract_returns_tree, "param": param_rename_tree, "inv": invert_ifs_tree}[which](tmp)
        try:
            a, _ = analyse(prop, repo_root, "quick")
            b, _ = analyse(prop, tmp, "quick")
        except AnalysisError as e:
            return (name, "twin-analysis-error", str(e)[:200])
        fa = collections.Counter((f.rule, f.symbol) for f in a.findings)
        fb = collections.Counter((f.rule, f.symbol) for f in b.findings)
        oa = collections.Counter(o["rule"] for o in a.obligations)
        ob = collections.Counter(o["rule"] for o in b.obligations)
        if fa != fb:
            diff = sorted(k for k in set(fa) | set(fb) if fa[k] != fb[k])
            return (name, "FALSE-ALARM", f"findings differ at {diff[:4]}")
        if oa != ob:
            return (name, "FALSE-ALARM", f"instances examined differ: {dict(oa)} vs {dict(ob)}")
        return (name, "silent", ", ".join(f"{k}={v}" for k, v in stats.items()))
    finally:
        shutil.rmtree(tmp, ignore_errors=True)


def run(prop: str, repo_root: str) -> dict:
    vs = _variants(prop)
    if not vs:
        return {"variants": 0, "note": "no self-test variants registered for this property"}
    base = _findings(prop, repo_root)
    jobs = [(prop, repo_root, i, base) for i in range(len(vs))]
    with multiprocessing.Pool(min(16, len(jobs) + 3)) as pool:
        twins = [pool.apply_async(_run_alpha, ((prop, repo_root, w),)) for w in ("alpha", "noop", "ret", "param", "inv")]
        results = pool.map(_run_one, jobs)
        results += [t.get() for t in twins]
    summary = {"variants": len(results), "results": [{"name": n, "verdict": s, "detail": d} for n, s, d in results]}
    bad = [r for r in results if r[1] in ("MISSED", "FALSE-ALARM", "broken-variant", "twin-analysis-error")]
    na = [r for r in results if r[1] == "not-applicable"]
    for n, s, d in results:
        print(f"  selftest {prop} {n}: {s}" + (f" ({d})" if s not in ("detected", "silent") else ""))
    if bad:
        raise AnalysisError(f"self-test failed for {prop}: " + "; ".join(f"{n}={s}" for n, s, _ in bad))
    if len(na) > len(vs) // 2:
        raise AnalysisError(f"self-test for {prop}: {len(na)} of {len(vs)} variants no longer apply (anchors moved)")
    return summary
