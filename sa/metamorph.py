"""Behaviour-preserving source transformations used as generic twins by the checker self-test.

`alpha_rename_tree(src_root)` rewrites every module under <src_root>/src/onnx_ir in place:
  * every function's local variables (names bound by assignment, for/with/except targets, comprehension targets and
    walrus - not parameters, not global/nonlocal names, not names bound in nested functions) get the suffix `_r`;
  * the module is re-emitted with `ast.unparse` (comments dropped, layout, quoting and line numbers changed).
A sound checker reports on the rewritten tree exactly what it reports on the original (per rule), because no rule may
depend on the spelling of a local variable, on comments, or on line numbers.
"""

from __future__ import annotations

import ast
import os


def _bound_names(fn: ast.AST) -> set[str]:
    """Names bound in fn's own scope (nested function bodies excluded, comprehensions included)."""
    out: set[str] = set()
    excluded: set[str] = set()

    def visit(n, top):
        for c in ast.iter_child_nodes(n):
            if isinstance(c, (ast.FunctionDef, ast.AsyncFunctionDef, ast.Lambda, ast.ClassDef)):
                if isinstance(c, (ast.FunctionDef, ast.AsyncFunctionDef, ast.ClassDef)):
                    excluded.add(c.name)  # def/class names are bindings we leave alone
                # names bound or declared inside nested scopes are left alone everywhere (closures may rebind them)
                for x in ast.walk(c):
                    if isinstance(x, ast.Name) and isinstance(x.ctx, (ast.Store, ast.Del)):
                        excluded.add(x.id)
                    elif isinstance(x, ast.arg):
                        excluded.add(x.arg)
                    elif isinstance(x, (ast.Global, ast.Nonlocal)):
                        excluded.update(x.names)
                continue
            if isinstance(c, (ast.Global, ast.Nonlocal)):
                excluded.update(c.names)
            elif isinstance(c, ast.Name) and isinstance(c.ctx, (ast.Store, ast.Del)):
                out.add(c.id)
            elif isinstance(c, ast.ExceptHandler) and c.name:
                excluded.add(c.name)  # handler names are strings, not Name nodes
            elif isinstance(c, (ast.Import, ast.ImportFrom)):
                for a in c.names:
                    excluded.add((a.asname or a.name).split(".")[0])
            elif isinstance(c, ast.MatchAs) and c.name:
                excluded.add(c.name)
            elif isinstance(c, ast.MatchStar) and c.name:
                excluded.add(c.name)
            elif isinstance(c, ast.MatchMapping) and c.rest:
                excluded.add(c.rest)
            visit(c, False)

    visit(fn, True)
    args = fn.args
    params = {a.arg for a in args.posonlyargs + args.args + args.kwonlyargs}
    if args.vararg:
        params.add(args.vararg.arg)
    if args.kwarg:
        params.add(args.kwarg.arg)
    return {n for n in out - excluded - params if not (n.startswith("__") and n.endswith("__"))}


class _Renamer(ast.NodeTransformer):
    def __init__(self, names: set[str]):
        self.names = names

    def visit_Name(self, node: ast.Name):
        if node.id in self.names:
            return ast.copy_location(ast.Name(id=node.id + "_r", ctx=node.ctx), node)
        return node


def alpha_rename_source(src: str) -> tuple[str, int]:
    tree = ast.parse(src)
    renamed = 0
    # innermost functions first, so that an outer function's renaming (which covers closures reading its locals)
    # is applied to already-processed inner functions consistently
    funcs = [n for n in ast.walk(tree) if isinstance(n, (ast.FunctionDef, ast.AsyncFunctionDef))]
    for fn in reversed(funcs):
        names = _bound_names(fn)
        # do not create clashes
        existing = {x.id for x in ast.walk(fn) if isinstance(x, ast.Name)} | {a.arg for a in ast.walk(fn) if isinstance(a, ast.arg)}
        names = {n for n in names if n + "_r" not in existing}
        if not names:
            continue
        renamed += len(names)
        r = _Renamer(names)
        fn.body = [r.visit(s) for s in fn.body]
    ast.fix_missing_locations(tree)
    return ast.unparse(tree) + "\n", renamed


def alpha_rename_tree(root: str) -> dict:
    base = os.path.join(root, "src", "onnx_ir")
    stats = {"modules": 0, "locals_renamed": 0}
    for dp, _dn, fns in os.walk(base):
        if "_thirdparty" in dp:
            continue
        for fn in fns:
            if not fn.endswith(".py") or fn.endswith("_test.py"):
                continue
            path = os.path.join(dp, fn)
            with open(path, encoding="utf-8") as fh:
                src = fh.read()
            new, n = alpha_rename_source(src)
            compile(new, path, "exec")
            with open(path, "w", encoding="utf-8") as fh:
                fh.write(new)
            stats["modules"] += 1
            stats["locals_renamed"] += n
    return stats


def insert_noop_tree(root: str) -> dict:
    """Second behaviour-preserving rewrite: every function gets a new first statement binding a fresh local
    (`_sa_probe = None`, after the docstring), and every module a new unused private helper.  Ranks of locals, statement
    indices and line numbers all shift; nothing the library does changes."""
    base = os.path.join(root, "src", "onnx_ir")
    stats = {"modules": 0, "functions": 0}
    for dp, _dn, fns in os.walk(base):
        if "_thirdparty" in dp:
            continue
        for fn in fns:
            if not fn.endswith(".py") or fn.endswith("_test.py"):
                continue
            path = os.path.join(dp, fn)
            with open(path, encoding="utf-8") as fh:
                src = fh.read()
            tree = ast.parse(src)
            for node in ast.walk(tree):
                if isinstance(node, (ast.FunctionDef, ast.AsyncFunctionDef)):
                    if any(isinstance(d, ast.Name) and d.id == "overload" or (isinstance(d, ast.Attribute) and d.attr == "overload") for d in node.decorator_list):
                        continue
                    body = node.body
                    if len(body) == 1 and isinstance(body[0], ast.Expr) and isinstance(body[0].value, ast.Constant):
                        continue  # stub: docstring or `...` only (protocol / abstract method)
                    if len(body) == 1 and isinstance(body[0], (ast.Pass, ast.Raise)):
                        continue
                    i = 1 if body and isinstance(body[0], ast.Expr) and isinstance(body[0].value, ast.Constant) and isinstance(body[0].value.value, str) else 0
                    if len(body) == i + 1 and isinstance(body[i], ast.Expr) and isinstance(body[i].value, ast.Constant):
                        continue
                    probe = ast.parse("_sa_probe = None").body[0]
                    body.insert(i, probe)
                    stats["functions"] += 1
            helper = ast.parse("def _sa_unused_helper(x):\n    return x\n").body[0]
            # after the module docstring and __future__ imports
            k = 0
            while k < len(tree.body) and (
                (isinstance(tree.body[k], ast.Expr) and isinstance(tree.body[k].value, ast.Constant))
                or (isinstance(tree.body[k], ast.ImportFrom) and tree.body[k].module == "__future__")
            ):
                k += 1
            tree.body.append(helper)
            ast.fix_missing_locations(tree)
            new = ast.unparse(tree) + "\n"
            compile(new, path, "exec")
            with open(path, "w", encoding="utf-8") as fh:
                fh.write(new)
            stats["modules"] += 1
    return stats


class _ReturnExtractor(ast.NodeTransformer):
    """`return <expr>` → `_sa_ret = <expr>; return _sa_ret` (extract-variable refactoring) for non-trivial expressions."""

    def __init__(self):
        self.count = 0

    def _rewrite(self, stmts):
        out = []
        for st in stmts:
            st = self.visit(st)
            if isinstance(st, ast.Return) and st.value is not None and not isinstance(st.value, (ast.Name, ast.Constant)):
                tmp = ast.Assign(targets=[ast.Name(id="_sa_ret", ctx=ast.Store())], value=st.value)
                out.append(ast.copy_location(tmp, st))
                out.append(ast.copy_location(ast.Return(value=ast.Name(id="_sa_ret", ctx=ast.Load())), st))
                self.count += 1
            else:
                out.append(st)
        return out

    def generic_visit(self, node):
        super().generic_visit(node)
        for fld in ("body", "orelse", "finalbody"):
            b = getattr(node, fld, None)
            if isinstance(b, list) and b and isinstance(b[0], ast.stmt):
                setattr(node, fld, self._rewrite_no_visit(b))
        if isinstance(node, ast.Try):
            for h in node.handlers:
                h.body = self._rewrite_no_visit(h.body)
        return node

    def _rewrite_no_visit(self, stmts):
        out = []
        for st in stmts:
            if isinstance(st, ast.Return) and st.value is not None and not isinstance(st.value, (ast.Name, ast.Constant)):
                tmp = ast.Assign(targets=[ast.Name(id="_sa_ret", ctx=ast.Store())], value=st.value)
                out.append(ast.copy_location(tmp, st))
                out.append(ast.copy_location(ast.Return(value=ast.Name(id="_sa_ret", ctx=ast.Load())), st))
                self.count += 1
            else:
                out.append(st)
        return out


def extract_returns_tree(root: str) -> dict:
    """Third behaviour-preserving rewrite: every non-trivial returned expression is first bound to a local."""
    base = os.path.join(root, "src", "onnx_ir")
    stats = {"modules": 0, "returns_rewritten": 0}
    for dp, _dn, fns in os.walk(base):
        if "_thirdparty" in dp:
            continue
        for fn in fns:
            if not fn.endswith(".py") or fn.endswith("_test.py"):
                continue
            path = os.path.join(dp, fn)
            with open(path, encoding="utf-8") as fh:
                src = fh.read()
            tree = ast.parse(src)
            tr = _ReturnExtractor()
            tree = tr.visit(tree)
            ast.fix_missing_locations(tree)
            new = ast.unparse(tree) + "\n"
            compile(new, path, "exec")
            with open(path, "w", encoding="utf-8") as fh:
                fh.write(new)
            stats["modules"] += 1
            stats["returns_rewritten"] += tr.count
    return stats


def param_rename_tree(root: str) -> dict:
    """Fourth behaviour-preserving rewrite: the positional parameters of every private function (underscore name, not a
    dunder), private method and nested function are renamed (`box` -> `box_q`), together with their uses in the function and
    its closures.  A parameter is left alone when some call of the package passes a keyword of that name, when it is `self` /
    `cls`, keyword-only, or when a nested scope binds the same name.  Public signatures are untouched."""
    base = os.path.join(root, "src", "onnx_ir")
    files = []
    for dp, _dn, fns in os.walk(base):
        if "_thirdparty" in dp:
            continue
        for fn in fns:
            if fn.endswith(".py") and not fn.endswith("_test.py"):
                files.append(os.path.join(dp, fn))
    trees = {}
    kw: set[str] = set()
    for dp, _dn, fns in os.walk(base):
        for fn in fns:
            if fn.endswith("_test.py"):  # the tests are not rewritten, but the keywords they pass must keep working
                with open(os.path.join(dp, fn), encoding="utf-8") as fh:
                    for n in ast.walk(ast.parse(fh.read())):
                        if isinstance(n, ast.Call):
                            kw.update(k.arg for k in n.keywords if k.arg)
    for path in files:
        with open(path, encoding="utf-8") as fh:
            trees[path] = ast.parse(fh.read())
        for n in ast.walk(trees[path]):
            if isinstance(n, ast.Call):
                kw.update(k.arg for k in n.keywords if k.arg)
            elif isinstance(n, ast.Constant) and isinstance(n.value, str) and n.value.isidentifier():
                kw.add(n.value)  # names used reflectively (getattr, **{...})
    stats = {"modules": 0, "parameters_renamed": 0}
    for path, tree in trees.items():
        def visit(node, nested):
            for c in ast.iter_child_nodes(node):
                if isinstance(c, (ast.FunctionDef, ast.AsyncFunctionDef)):
                    private = c.name.startswith("_") and not (c.name.startswith("__") and c.name.endswith("__"))
                    if (private or nested) and not c.decorator_list:
                        stats["parameters_renamed"] += _rename_params(c, kw)
                    visit(c, True)
                elif isinstance(c, ast.ClassDef):
                    visit(c, False)
                else:
                    visit(c, nested)

        visit(tree, False)
        ast.fix_missing_locations(tree)
        new = ast.unparse(tree) + "\n"
        compile(new, path, "exec")
        with open(path, "w", encoding="utf-8") as fh:
            fh.write(new)
        stats["modules"] += 1
    return stats


def _rename_params(fn, kw: set[str]) -> int:
    a = fn.args
    params = [x for x in a.posonlyargs + a.args if x.arg not in ("self", "cls")]
    all_names = {x.id for x in ast.walk(fn) if isinstance(x, ast.Name)} | {x.arg for x in ast.walk(fn) if isinstance(x, ast.arg)}
    # names bound again in a nested scope (its own parameters or locals): leave alone
    rebound: set[str] = set()
    for c in ast.walk(fn):
        if c is fn or not isinstance(c, (ast.FunctionDef, ast.AsyncFunctionDef, ast.Lambda, ast.ListComp, ast.SetComp, ast.DictComp, ast.GeneratorExp)):
            continue
        for x in ast.walk(c):
            if isinstance(x, ast.arg):
                rebound.add(x.arg)
            elif isinstance(x, ast.Name) and isinstance(x.ctx, (ast.Store, ast.Del)):
                rebound.add(x.id)
            elif isinstance(x, (ast.Global, ast.Nonlocal)):
                rebound.update(x.names)
    names = {}
    for p in params:
        new = p.arg + "_q"
        if p.arg in kw or p.arg in rebound or new in all_names:
            continue
        names[p.arg] = new
    if not names:
        return 0
    for x in ast.walk(fn):
        if isinstance(x, ast.Name) and x.id in names:
            x.id = names[x.id]
        elif isinstance(x, ast.arg) and x.arg in names and x in params:
            x.arg = names[x.arg]
    return len(names)


# ------------------------------------------------------------------------------------------------ fifth twin: inverted ifs
class _IfInverter(ast.NodeTransformer):
    """`if c: A else: B`  →  `if not (c): B else: A` for every two-armed `if` that is not part of an elif chain (neither an
    elif itself nor followed by one), inside functions only.  `not (a is b)` style double negations are written out as the
    opposite comparison where there is one, so the result reads like code a person would write."""

    def __init__(self):
        self.count = 0
        self._elif: set[int] = set()

    _OPP = {ast.Is: ast.IsNot, ast.IsNot: ast.Is, ast.Eq: ast.NotEq, ast.NotEq: ast.Eq, ast.In: ast.NotIn, ast.NotIn: ast.In,
            ast.Lt: ast.GtE, ast.GtE: ast.Lt, ast.Gt: ast.LtE, ast.LtE: ast.Gt}

    def _negate(self, t):
        if isinstance(t, ast.UnaryOp) and isinstance(t.op, ast.Not):
            return t.operand
        if isinstance(t, ast.Compare) and len(t.ops) == 1 and type(t.ops[0]) in (ast.Is, ast.IsNot, ast.Eq, ast.NotEq, ast.In, ast.NotIn):
            return ast.Compare(left=t.left, ops=[self._OPP[type(t.ops[0])]()], comparators=t.comparators)
        return ast.UnaryOp(op=ast.Not(), operand=t)

    def visit_If(self, node: ast.If):
        if len(node.orelse) == 1 and isinstance(node.orelse[0], ast.If):
            self._elif.add(id(node.orelse[0]))
            chain_head = True
        else:
            chain_head = False
        is_elif = id(node) in self._elif
        self.generic_visit(node)
        if node.orelse and not chain_head and not is_elif and not any(isinstance(x, ast.NamedExpr) for x in ast.walk(node.test)):
            node.test, node.body, node.orelse = self._negate(node.test), node.orelse, node.body
            self.count += 1
        return node


def invert_ifs_tree(root: str) -> dict:
    """Fifth behaviour-preserving rewrite: the two arms of every plain if/else inside a function are swapped and the test is
    negated.  What the library does is unchanged; rules that read a guard in one polarity only, or that take "the body" of an
    `if` for "the case where the test holds", lose their footing."""
    base = os.path.join(root, "src", "onnx_ir")
    stats = {"modules": 0, "ifs": 0}
    for dp, _dn, fns in os.walk(base):
        if "_thirdparty" in dp:
            continue
        for fn in fns:
            if not fn.endswith(".py") or fn.endswith("_test.py"):
                continue
            path = os.path.join(dp, fn)
            with open(path, encoding="utf-8") as fh:
                src = fh.read()
            tree = ast.parse(src)
            n = 0
            for node in ast.walk(tree):
                if isinstance(node, (ast.FunctionDef, ast.AsyncFunctionDef)):
                    inv = _IfInverter()
                    node.body = [inv.visit(st) for st in node.body]
                    n += inv.count
            if n:
                ast.fix_missing_locations(tree)
                out = ast.unparse(tree)
                compile(out, path, "exec")
                with open(path, "w", encoding="utf-8") as fh:
                    fh.write(out + "\n")
                stats["modules"] += 1
                stats["ifs"] += n
    return stats
