"""Shared rule S1 — GRAPH / GRAPHS sibling agreement (serves C05, C07, C11, C12, C13, C18)."""

from __future__ import annotations

import ast

from .index import FuncInfo, dotted_of, norm, own_nodes

_IGNORED_CALLS = {"reversed", "iter", "list", "tuple", "isinstance", "len", "enumerate", "zip", "as_graphs", "as_graph",
                  # building the collection of per-graph results in the GRAPHS branch
                  "add", "append", "extend"}
# sites that test an attribute's type for reasons other than visiting its graphs (one reason each)
S1_EXEMPT = {
    "onnx_ir._core:Attr.__init__": "normalises sequence-valued attributes to tuples; GRAPH is scalar-valued",
    "onnx_ir._core:Attr.__str__": "display only: indents a single graph's text",
}


def _attr_type_const(e) -> str | None:
    d = dotted_of(e) or ""
    if d.endswith("AttributeType.GRAPH"):
        return "GRAPH"
    if d.endswith("AttributeType.GRAPHS"):
        return "GRAPHS"
    return None


def _test_kind(test: ast.AST):
    """('eq', 'GRAPH'|'GRAPHS') / ('in', {…}) / None for a test on an attribute's type."""
    for t in ast.walk(test):
        if isinstance(t, ast.Compare) and len(t.ops) == 1:
            c = t.comparators[0]
            if isinstance(t.ops[0], (ast.Eq, ast.Is)) and _attr_type_const(c):
                return ("eq", _attr_type_const(c), t)
            if isinstance(t.ops[0], ast.In) and isinstance(c, (ast.Tuple, ast.Set, ast.List)):
                ks = {_attr_type_const(x) for x in c.elts} - {None}
                if ks:
                    return ("in", ks, t)
    return None


def _callee_names(stmts) -> set[str]:
    out = set()
    for s in stmts:
        for n in ast.walk(s):
            if isinstance(n, ast.Call):
                f = n.func
                name = f.attr if isinstance(f, ast.Attribute) else (f.id if isinstance(f, ast.Name) else None)
                if name and name.startswith("Attr") and name.endswith("s"):
                    name = name[:-1]  # AttrGraphs ~ AttrGraph (sequence constructor of the same kind)
                if name and name not in _IGNORED_CALLS:
                    out.add(name)
            elif isinstance(n, (ast.Yield, ast.YieldFrom)):
                out.add("<yield>")
    return out


def _effects(stmts) -> set[str]:
    """Callee names plus the kinds of statements with effects (stores into containers)."""
    out = _callee_names(stmts)
    for s in stmts:
        for n in ast.walk(s):
            if isinstance(n, ast.Assign) and isinstance(n.targets[0], ast.Subscript):
                out.add("<store[]>")
            elif isinstance(n, ast.AugAssign):
                out.add("<aug>")
    return out


def s1_sites(repo, modules: set[str] | None = None):
    """Yield (FuncInfo, node, ok, detail, label) for every GRAPH/GRAPHS dispatch site."""
    for f in repo.all_funcs():
        if modules is not None and f.module.name not in modules:
            continue
        if f.key in S1_EXEMPT:
            continue
        seen_ifs = set()
        for n in own_nodes(f.node):
            if isinstance(n, (ast.If, ast.IfExp)) or (isinstance(n, ast.Compare) and not isinstance(getattr(n, "_parent", None), (ast.If, ast.IfExp, ast.BoolOp))):
                test = n.test if isinstance(n, (ast.If, ast.IfExp)) else n
                k = _test_kind(test)
                if k is None:
                    continue
                if k[0] == "in":
                    ok = k[1] >= {"GRAPH", "GRAPHS"}
                    yield f, n, ok, f"membership test names {sorted(k[1])} only", f"membership {sorted(k[1])}"
                    continue
                if not isinstance(n, ast.If) or id(n) in seen_ifs:
                    continue
                # walk the if/elif chain from its head
                head = n
                p = getattr(head, "_parent", None)
                while isinstance(p, ast.If) and p.orelse == [head] and _test_kind(p.test):
                    head = p
                    p = getattr(head, "_parent", None)
                branches = {}
                cur = head
                while isinstance(cur, ast.If):
                    seen_ifs.add(id(cur))
                    kk = _test_kind(cur.test)
                    if kk and kk[0] == "eq":
                        branches[kk[1]] = cur
                    elif kk and kk[0] == "in":
                        for x in kk[1]:
                            branches[x] = cur
                    cur = cur.orelse[0] if len(cur.orelse) == 1 and isinstance(cur.orelse[0], ast.If) else None
                # consecutive sibling `if` statements in the same block also count
                blk = getattr(head, "_parent", None)
                for fld in ("body", "orelse"):
                    stmts = getattr(blk, fld, None)
                    if isinstance(stmts, list) and head in stmts:
                        for s in stmts:
                            if isinstance(s, ast.If) and s is not head:
                                kk = _test_kind(s.test)
                                if kk and kk[0] == "eq" and kk[1] not in branches:
                                    branches[kk[1]] = s
                                    seen_ifs.add(id(s))
                if "GRAPH" in branches and "GRAPHS" not in branches:
                    yield f, head, False, "GRAPH attributes are handled but GRAPHS attributes are not", "GRAPH without GRAPHS"
                elif "GRAPHS" in branches and "GRAPH" not in branches:
                    yield f, head, False, "GRAPHS attributes are handled but GRAPH attributes are not", "GRAPHS without GRAPH"
                elif "GRAPH" in branches:
                    a, b = _effects(branches["GRAPH"].body), _effects(branches["GRAPHS"].body)
                    ok = a == b
                    yield f, head, ok, f"GRAPH branch does {sorted(a)} but GRAPHS branch does {sorted(b)}", f"GRAPH {sorted(a)} / GRAPHS {sorted(b)}"


# ------------------------------------------------------------------------------------------------------
# Shared rule S2 — scope-stack precedence (serves C03, C17): every lookup over the stack of per-graph
# name tables gives the innermost binding.
#
# The stack is found from the code, not by name: the parameter of the graph deserializer on which
# `.append(<table>)` and `.pop()` are both called, followed through calls that pass it on.  The order of
# the stack is outer → inner (append pushes the inner scope).  Classified uses:
#   for t in reversed(S): … break/return   first hit wins, inner first      → inner wins
#   for t in S: d.update(t) / d[k] = …     last write wins, inner last      → inner wins
#   {k: v for t in S for k, v in t.items()}                                  → inner wins (last wins)
#   ChainMap(*reversed(S))                 first mapping wins                → inner wins
# and the mirror images (first hit of a forward loop, last write of a reversed loop, ChainMap(*S),
# reversed comprehension) make the OUTER binding win.
# ------------------------------------------------------------------------------------------------------
def _is_reversed_of(e, name: str) -> bool | None:
    """True: reversed(name) / name[::-1]; False: name itself; None: something else."""
    if isinstance(e, ast.Name) and e.id == name:
        return False
    if isinstance(e, ast.Call) and dotted_of(e.func) == "reversed" and len(e.args) == 1:
        r = _is_reversed_of(e.args[0], name)
        return None if r is None else not r
    if isinstance(e, ast.Call) and dotted_of(e.func) in ("list", "tuple", "iter") and len(e.args) == 1:
        return _is_reversed_of(e.args[0], name)
    if isinstance(e, ast.Subscript) and isinstance(e.slice, ast.Slice) and e.slice.lower is None and e.slice.upper is None:
        st = e.slice.step
        r = _is_reversed_of(e.value, name)
        if r is None:
            return None
        if st is None:
            return r
        if isinstance(st, ast.UnaryOp) and isinstance(st.op, ast.USub) and isinstance(st.operand, ast.Constant) and st.operand.value == 1:
            return not r
    return None


def scope_stack_functions(repo, module: str = "onnx_ir.serde") -> dict[str, str]:
    """{function key: parameter/variable name holding the scope stack}."""
    m = repo.modules[module]
    out: dict[str, str] = {}
    funcs = {f.key: f for f in m.all_funcs}
    for f in funcs.values():
        for p in f.params:
            pushed = popped = False
            for n in own_nodes(f.node):
                if isinstance(n, ast.Call) and isinstance(n.func, ast.Attribute) and isinstance(n.func.value, ast.Name) and n.func.value.id == p:
                    pushed |= n.func.attr == "append"
                    popped |= n.func.attr == "pop"
            if pushed and popped:
                out[f.key] = p
    changed = True
    while changed:
        changed = False
        for f in funcs.values():
            if f.key not in out:
                continue
            s = out[f.key]
            for n in own_nodes(f.node):
                if not isinstance(n, ast.Call):
                    continue
                name = dotted_of(n.func)
                g = m.functions.get(name) if name else None
                if g is None or g.key in out:
                    continue
                for i, a in enumerate(n.args):
                    if isinstance(a, ast.Name) and a.id == s and i < len(g.params):
                        out[g.key] = g.params[i]
                        changed = True
                for k in n.keywords:
                    if isinstance(k.value, ast.Name) and k.value.id == s and k.arg in g.params:
                        out[g.key] = k.arg
                        changed = True
    return out


def scope_precedence_sites(repo, module: str = "onnx_ir.serde"):
    """[(FuncInfo, node, form, winner)] for every classified lookup over the scope stack; winner ∈ inner|outer."""
    m = repo.modules[module]
    funcs = {f.key: f for f in m.all_funcs}
    sites = []
    for key, s in scope_stack_functions(repo, module).items():
        f = funcs[key]
        for n in own_nodes(f.node):
            if isinstance(n, ast.For):
                r = _is_reversed_of(n.iter, s)
                if r is None:
                    continue
                first_hit = any(isinstance(x, (ast.Break, ast.Return)) for b in n.body for x in ast.walk(b))
                writes = any(
                    (isinstance(x, ast.Call) and isinstance(x.func, ast.Attribute) and x.func.attr in ("update", "setdefault"))
                    or (isinstance(x, (ast.Assign, ast.AugAssign)) and any(isinstance(t, ast.Subscript) for t in (x.targets if isinstance(x, ast.Assign) else [x.target])))
                    for b in n.body for x in ast.walk(b))  # fmt: skip
                setdef = any(isinstance(x, ast.Call) and isinstance(x.func, ast.Attribute) and x.func.attr == "setdefault" for b in n.body for x in ast.walk(b))
                if first_hit:
                    sites.append((f, n, f"first hit of `for … in {norm(n.iter)}`", "inner" if r else "outer"))
                elif writes:
                    last_wins = not setdef
                    inner = (not r) if last_wins else r
                    sites.append((f, n, f"{'last' if last_wins else 'first'} write of `for … in {norm(n.iter)}`", "inner" if inner else "outer"))
                else:
                    # neither stops at the first hit nor builds a map: if the body consumes the scope (reads the loop
                    # variable) every scope that binds the name contributes - no scope "wins"
                    tnames = {x.id for x in ast.walk(n.target) if isinstance(x, ast.Name)}
                    if any(isinstance(x, ast.Name) and x.id in tnames and isinstance(x.ctx, ast.Load) for b in n.body for x in ast.walk(b)):
                        sites.append((f, n, f"every hit of `for … in {norm(n.iter)}` (no break/return)", "all"))
            elif isinstance(n, (ast.DictComp, ast.ListComp, ast.GeneratorExp, ast.SetComp)):
                r = _is_reversed_of(n.generators[0].iter, s)
                if r is None:
                    continue
                if isinstance(n, ast.DictComp):
                    sites.append((f, n, f"dict comprehension over `{norm(n.generators[0].iter)}` (last wins)", "outer" if r else "inner"))
            elif isinstance(n, ast.Call) and (dotted_of(n.func) or "").split(".")[-1] == "ChainMap":
                for a in n.args:
                    if isinstance(a, ast.Starred):
                        r = _is_reversed_of(a.value, s)
                        if r is not None:
                            sites.append((f, n, f"`{norm(n)}` (first mapping wins)", "inner" if r else "outer"))
    return sites


# ------------------------------------------------------------------------------------------------------
# Shared rule S3 — accumulated flags are monotone.  A boolean/counter initialised to a false value outside a
# loop, assigned inside that loop and read after it is an accumulator ("did anything change?"): inside the loop
# it may only be set by monotone forms (True, flag or x, x or flag, |=, +=).  `flag = x` forgets earlier
# iterations.
# ------------------------------------------------------------------------------------------------------
def accumulator_flags(f: FuncInfo) -> set[str]:
    """Names initialised to False/0 and assigned inside a loop (candidates of rule S3)."""
    names = set()
    for n in own_nodes(f.node):
        if isinstance(n, (ast.Assign, ast.AnnAssign)) and getattr(n, "value", None) is not None and isinstance(n.value, ast.Constant) \
                and n.value.value in (False, 0):
            for t in n.targets if isinstance(n, ast.Assign) else [n.target]:
                if isinstance(t, ast.Name):
                    names.add(t.id)
    out = set()
    for n in own_nodes(f.node):
        if isinstance(n, (ast.Assign, ast.AugAssign)):
            t = n.targets[0] if isinstance(n, ast.Assign) else n.target
            if isinstance(t, ast.Name) and t.id in names:
                p = getattr(n, "_parent", None)
                while p is not None and p is not f.node:
                    if isinstance(p, (ast.For, ast.While)):
                        out.add(t.id)
                    p = getattr(p, "_parent", None)
    return out


def nonmonotone_flags(f: FuncInfo):
    """[(flag name, offending assignment, loop)] in function f."""
    out = []
    inits = {}
    for n in own_nodes(f.node):
        if isinstance(n, (ast.Assign, ast.AnnAssign)) and getattr(n, "value", None) is not None and isinstance(n.value, ast.Constant) \
                and n.value.value in (False, 0):
            for t in n.targets if isinstance(n, ast.Assign) else [n.target]:
                if isinstance(t, ast.Name):
                    inits.setdefault(t.id, []).append(n)
    if not inits:
        return out

    def loops_of(node):
        ls = []
        p = getattr(node, "_parent", None)
        while p is not None and p is not f.node:
            if isinstance(p, (ast.For, ast.While, ast.AsyncFor)):
                ls.append(p)
            p = getattr(p, "_parent", None)
        return ls

    for name, init_nodes in inits.items():
        for a in own_nodes(f.node):
            if not (isinstance(a, ast.Assign) and len(a.targets) == 1 and isinstance(a.targets[0], ast.Name) and a.targets[0].id == name):
                continue
            if a in init_nodes:
                continue
            v = a.value
            mono = (isinstance(v, ast.Constant) and bool(v.value)) or (
                isinstance(v, ast.BoolOp) and isinstance(v.op, ast.Or) and any(isinstance(x, ast.Name) and x.id == name for x in v.values)) or (
                isinstance(v, ast.BinOp) and isinstance(v.op, (ast.BitOr, ast.Add)) and any(isinstance(x, ast.Name) and x.id == name for x in (v.left, v.right)))
            if mono or (isinstance(v, ast.Constant) and v.value in (False, 0)):
                continue
            for lp in loops_of(a):
                # an initialisation outside this loop (the accumulator spans the loop) …
                outside = [i for i in init_nodes if lp not in loops_of(i) and not any(i is x for x in ast.walk(lp))]
                if not outside:
                    continue
                # … and a read after the loop
                after = False
                for x in own_nodes(f.node):
                    if isinstance(x, ast.Name) and x.id == name and isinstance(x.ctx, ast.Load) and not any(x is y for y in ast.walk(lp)) \
                            and (x.lineno, x.col_offset) > (lp.end_lineno or lp.lineno, 0):
                        after = True
                if after:
                    out.append((name, a, lp))
                    break
    return out


# ------------------------------------------------------------------------------------------------------
# Shared rule S5 — per-iteration results are built from per-iteration collections.  Inside a loop L, a local
# collection X that is grown in L's body (append/extend/add/update/[k]=) and whose content is stored into an
# object in L's body (obj.attr = …X… / obj[k] = …X…, once per iteration) must be created inside L's body: a
# collection created before the loop carries the elements of earlier iterations into later results.
# ------------------------------------------------------------------------------------------------------
_GROW = ("append", "extend", "add", "update", "insert", "setdefault")


def leaked_iteration_collections(f: FuncInfo):
    """[(name, loop, store stmt)]"""
    out = []
    for lp in (n for n in own_nodes(f.node) if isinstance(n, (ast.For, ast.While))):
        body_nodes = [x for st in lp.body for x in ast.walk(st)]
        inner_loops = [x for x in body_nodes if isinstance(x, (ast.For, ast.While))]

        def directly_in(x):  # x is in lp's body but not inside a loop nested in lp
            return not any(any(x is y for y in ast.walk(il)) for il in inner_loops)

        grown = set()
        for x in body_nodes:
            if isinstance(x, ast.Call) and isinstance(x.func, ast.Attribute) and x.func.attr in _GROW and isinstance(x.func.value, ast.Name):
                grown.add(x.func.value.id)
            elif isinstance(x, ast.Assign) and isinstance(x.targets[0], ast.Subscript) and isinstance(x.targets[0].value, ast.Name):
                grown.add(x.targets[0].value.id)
        if not grown:
            continue
        created_inside = {t.id for x in body_nodes if isinstance(x, (ast.Assign, ast.AnnAssign)) and getattr(x, "value", None) is not None
                          for t in (x.targets if isinstance(x, ast.Assign) else [x.target]) if isinstance(t, ast.Name)}
        for x in body_nodes:
            if not (isinstance(x, ast.Assign) and isinstance(x.targets[0], (ast.Attribute, ast.Subscript)) and directly_in(x)):
                continue
            t = x.targets[0]
            base = t
            while isinstance(base, (ast.Attribute, ast.Subscript)):
                base = base.value
            if not isinstance(base, ast.Name) or base.id in grown:
                continue  # X[k] = … is the growth itself
            used = {y.id for y in ast.walk(x.value) if isinstance(y, ast.Name)} & grown
            for name in sorted(used - created_inside):
                # created before the loop in this function (a local, not a parameter)
                if any(isinstance(a, (ast.Assign, ast.AnnAssign)) and getattr(a, "value", None) is not None and any(
                        isinstance(tt, ast.Name) and tt.id == name for tt in (a.targets if isinstance(a, ast.Assign) else [a.target]))
                        and not any(a is y for y in body_nodes) for a in own_nodes(f.node)):
                    out.append((name, lp, x))
    return out


# ------------------------------------------------------------------------------------------------------
# Shared rule S6 — a memo key determines the memoised value.  In `if K not in M: M[K] = E` (or M.get/M.setdefault
# forms) every loop-varying quantity E reads (attribute chains of the loop variables) must also be read by K:
# otherwise two iterations with the same key but different inputs share one answer.
# ------------------------------------------------------------------------------------------------------
def memo_key_gaps(f: FuncInfo):
    """[(memo name, store stmt, missing attribute chains)]"""
    out = []

    def chains(e, f_node, depth=0):
        # attribute chains rooted at names, following single-assignment locals
        res = set()
        for x in ast.walk(e):
            if isinstance(x, ast.Attribute) and isinstance(x.ctx, ast.Load):
                b = x
                while isinstance(b, ast.Attribute):
                    b = b.value
                if isinstance(b, ast.Name):
                    res.add(norm(x))
            elif isinstance(x, ast.Name) and depth < 3:
                defs = [a.value for a in own_nodes(f_node) if isinstance(a, ast.Assign) and len(a.targets) == 1 and isinstance(a.targets[0], ast.Name)
                        and a.targets[0].id == x.id]
                if len(defs) == 1:
                    res |= chains(defs[0], f_node, depth + 1)
        # keep only maximal chains (a.b.c subsumes a.b)
        return {c for c in res if not any(o != c and o.startswith(c + ".") for o in res)}

    for lp in (n for n in own_nodes(f.node) if isinstance(n, ast.For)):
        lvars = {x.id for x in ast.walk(lp.target) if isinstance(x, ast.Name)}
        for iff in (x for st in lp.body for x in ast.walk(st) if isinstance(x, ast.If)):
            t = iff.test
            if not (isinstance(t, ast.Compare) and len(t.ops) == 1 and isinstance(t.ops[0], ast.NotIn) and isinstance(t.comparators[0], ast.Name)):
                continue
            memo, key = t.comparators[0].id, t.left
            for st in iff.body:
                if isinstance(st, ast.Assign) and isinstance(st.targets[0], ast.Subscript) and isinstance(st.targets[0].value, ast.Name) \
                        and st.targets[0].value.id == memo and norm(st.targets[0].slice) == norm(key):
                    kc = {c for c in chains(key, f.node) if c.split(".")[0] in lvars}
                    vc = {c for c in chains(st.value, f.node) if c.split(".")[0] in lvars}
                    missing = sorted(c for c in vc if c not in kc and not any(k == c or c.startswith(k + ".") for k in kc))
                    if missing or True:
                        out.append((memo, st, missing))
    return out
