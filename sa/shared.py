"""Shared rule S1 — GRAPH / GRAPHS sibling agreement (serves C05, C07, C11, C12, C13, C18)."""

from __future__ import annotations

import ast

from .index import ClassInfo, FuncInfo, Repo, dotted_of, norm, own_nodes, short

_IGNORED_CALLS = {"reversed", "iter", "list", "tuple", "isinstance", "len", "enumerate", "zip", "as_graphs", "as_graph",
                  # building the collection of per-graph results in the GRAPHS branch
                  "add", "append", "extend"}
# sites that test an attribute's type for reasons other than visiting its graphs (one reason each)
S1_EXEMPT = {
    "onnx_ir._core:Attr.__init__": "normalises sequence-valued attributes to tuples; GRAPH is scalar-valued",
    "onnx_ir._core:Attr.__str__": "display only: indents a single graph's text",
}


def _attr_type_const(e) -> str | None:
    d = dotted_of(e) or ""
    if d.endswith("AttributeType.GRAPH"):
        return "GRAPH"
    if d.endswith("AttributeType.GRAPHS"):
        return "GRAPHS"
    return None


def _test_kind(test: ast.AST):
    """('eq', 'GRAPH'|'GRAPHS') / ('in', {…}) / None for a test on an attribute's type."""
    for t in ast.walk(test):
        if isinstance(t, ast.Compare) and len(t.ops) == 1:
            c = t.comparators[0]
            if isinstance(t.ops[0], (ast.Eq, ast.Is)) and _attr_type_const(c):
                return ("eq", _attr_type_const(c), t)
            if isinstance(t.ops[0], ast.In) and isinstance(c, (ast.Tuple, ast.Set, ast.List)):
                ks = {_attr_type_const(x) for x in c.elts} - {None}
                if ks:
                    return ("in", ks, t)
    return None


def _callee_names(stmts) -> set[str]:
    out = set()
    for s in stmts:
        for n in ast.walk(s):
            if isinstance(n, ast.Call):
                f = n.func
                name = f.attr if isinstance(f, ast.Attribute) else (f.id if isinstance(f, ast.Name) else None)
                if name and name.startswith("Attr") and name.endswith("s"):
                    name = name[:-1]  # AttrGraphs ~ AttrGraph (sequence constructor of the same kind)
                if name and name not in _IGNORED_CALLS:
                    out.add(name)
                    # … and how it is called: the two branches hand the same options to the same callee (a keyword forgotten at
                    # one of two sibling construction sites - reverse=, exit_graph= - makes the branches behave differently)
                    kws = sorted(k.arg for k in n.keywords if k.arg)
                    if kws:
                        out.add(f"{name}({', '.join(k + '=' for k in kws)})")
            elif isinstance(n, (ast.Yield, ast.YieldFrom)):
                out.add("<yield>")
    return out


def _effects(stmts) -> set[str]:
    """Callee names plus the kinds of statements with effects (stores into containers)."""
    out = _callee_names(stmts)
    for s in stmts:
        for n in ast.walk(s):
            if isinstance(n, ast.Assign) and isinstance(n.targets[0], ast.Subscript):
                out.add("<store[]>")
            elif isinstance(n, ast.AugAssign):
                out.add("<aug>")
    return out


def s1_sites(repo, modules: set[str] | None = None):
    """Yield (FuncInfo, node, ok, detail, label) for every GRAPH/GRAPHS dispatch site."""
    for f in repo.all_funcs():
        if modules is not None and f.module.name not in modules:
            continue
        if f.key in S1_EXEMPT:
            continue
        seen_ifs = set()
        for n in own_nodes(f.node):
            if isinstance(n, (ast.If, ast.IfExp)) or (isinstance(n, ast.Compare) and not isinstance(getattr(n, "_parent", None), (ast.If, ast.IfExp, ast.BoolOp))):
                test = n.test if isinstance(n, (ast.If, ast.IfExp)) else n
                k = _test_kind(test)
                if k is None:
                    continue
                if k[0] == "in":
                    ok = k[1] >= {"GRAPH", "GRAPHS"}
                    yield f, n, ok, f"membership test names {sorted(k[1])} only", f"membership {sorted(k[1])}"
                    continue
                if not isinstance(n, ast.If) or id(n) in seen_ifs:
                    continue
                # walk the if/elif chain from its head
                head = n
                p = getattr(head, "_parent", None)
                while isinstance(p, ast.If) and p.orelse == [head] and _test_kind(p.test):
                    head = p
                    p = getattr(head, "_parent", None)
                branches = {}
                cur = head
                while isinstance(cur, ast.If):
                    seen_ifs.add(id(cur))
                    kk = _test_kind(cur.test)
                    if kk and kk[0] == "eq":
                        branches[kk[1]] = cur
                    elif kk and kk[0] == "in":
                        for x in kk[1]:
                            branches[x] = cur
                    cur = cur.orelse[0] if len(cur.orelse) == 1 and isinstance(cur.orelse[0], ast.If) else None
                # consecutive sibling `if` statements in the same block also count
                blk = getattr(head, "_parent", None)
                for fld in ("body", "orelse"):
                    stmts = getattr(blk, fld, None)
                    if isinstance(stmts, list) and head in stmts:
                        for s in stmts:
                            if isinstance(s, ast.If) and s is not head:
                                kk = _test_kind(s.test)
                                if kk and kk[0] == "eq" and kk[1] not in branches:
                                    branches[kk[1]] = s
                                    seen_ifs.add(id(s))
                if "GRAPH" in branches and "GRAPHS" not in branches:
                    yield f, head, False, "GRAPH attributes are handled but GRAPHS attributes are not", "GRAPH without GRAPHS"
                elif "GRAPHS" in branches and "GRAPH" not in branches:
                    yield f, head, False, "GRAPHS attributes are handled but GRAPH attributes are not", "GRAPHS without GRAPH"
                elif "GRAPH" in branches:
                    a, b = _effects(branches["GRAPH"].body), _effects(branches["GRAPHS"].body)
                    ok = a == b
                    yield f, head, ok, f"GRAPH branch does {sorted(a)} but GRAPHS branch does {sorted(b)}", f"GRAPH {sorted(a)} / GRAPHS {sorted(b)}"
        # table-driven dispatch: a module-level dict keyed by attribute types, consulted with `<table>.get(<attr>.type)` / `<table>[<attr>.type]`
        # - what follows the lookup is one piece of code for both kinds, so the siblings agree when the table names both
        for n in own_nodes(f.node):
            tab = key = None
            if isinstance(n, ast.Call) and isinstance(n.func, ast.Attribute) and n.func.attr == "get" and isinstance(n.func.value, ast.Name) and n.args:
                tab, key = n.func.value.id, n.args[0]
            elif isinstance(n, ast.Subscript) and isinstance(n.value, ast.Name) and isinstance(n.ctx, ast.Load):
                tab, key = n.value.id, n.slice
            if tab is None or not (isinstance(key, ast.Attribute) and key.attr == "type"):
                continue
            d = f.module.assigns.get(tab)
            if not isinstance(d, ast.Dict):
                continue
            kinds = {_attr_type_const(k_) for k_ in d.keys if k_ is not None} - {None}
            if not kinds & {"GRAPH", "GRAPHS"}:
                continue
            yield f, n, kinds >= {"GRAPH", "GRAPHS"}, f"the dispatch table `{tab}` names {sorted(kinds & {'GRAPH', 'GRAPHS'})} only", f"table {sorted(kinds)}"


# ------------------------------------------------------------------------------------------------------
# Shared rule S2 — scope-stack precedence (serves C03, C17): every lookup over the stack of per-graph
# name tables gives the innermost binding.
#
# The stack is found from the code, not by name: the parameter of the graph deserializer on which
# `.append(<table>)` and `.pop()` are both called, followed through calls that pass it on.  The order of
# the stack is outer → inner (append pushes the inner scope).  Classified uses:
#   for t in reversed(S): … break/return   first hit wins, inner first      → inner wins
#   for t in S: d.update(t) / d[k] = …     last write wins, inner last      → inner wins
#   {k: v for t in S for k, v in t.items()}                                  → inner wins (last wins)
#   ChainMap(*reversed(S))                 first mapping wins                → inner wins
# and the mirror images (first hit of a forward loop, last write of a reversed loop, ChainMap(*S),
# reversed comprehension) make the OUTER binding win.
# ------------------------------------------------------------------------------------------------------
def _is_reversed_of(e, name: str) -> bool | None:
    """True: reversed(name) / name[::-1]; False: name itself; None: something else."""
    if isinstance(e, ast.Name) and e.id == name:
        return False
    if isinstance(e, ast.Call) and dotted_of(e.func) == "reversed" and len(e.args) == 1:
        r = _is_reversed_of(e.args[0], name)
        return None if r is None else not r
    if isinstance(e, ast.Call) and dotted_of(e.func) in ("list", "tuple", "iter") and len(e.args) == 1:
        return _is_reversed_of(e.args[0], name)
    if isinstance(e, ast.Subscript) and isinstance(e.slice, ast.Slice) and e.slice.lower is None and e.slice.upper is None:
        st = e.slice.step
        r = _is_reversed_of(e.value, name)
        if r is None:
            return None
        if st is None:
            return r
        if isinstance(st, ast.UnaryOp) and isinstance(st.op, ast.USub) and isinstance(st.operand, ast.Constant) and st.operand.value == 1:
            return not r
    return None


def scope_stack_functions(repo, module: str = "onnx_ir.serde") -> dict[str, str]:
    """{function key: parameter/variable name holding the scope stack}."""
    m = repo.modules[module]
    out: dict[str, str] = {}
    funcs = {f.key: f for f in m.all_funcs}
    for f in funcs.values():
        for p in f.params:
            pushed = popped = False
            for n in own_nodes(f.node):
                if isinstance(n, ast.Call) and isinstance(n.func, ast.Attribute) and isinstance(n.func.value, ast.Name) and n.func.value.id == p:
                    pushed |= n.func.attr == "append"
                    popped |= n.func.attr == "pop"
            if pushed and popped:
                out[f.key] = p
    changed = True
    while changed:
        changed = False
        for f in funcs.values():
            if f.key not in out:
                continue
            s = out[f.key]
            for n in own_nodes(f.node):
                if not isinstance(n, ast.Call):
                    continue
                name = dotted_of(n.func)
                g = m.functions.get(name) if name else None
                if g is None or g.key in out:
                    continue
                for i, a in enumerate(n.args):
                    if isinstance(a, ast.Name) and a.id == s and i < len(g.params):
                        out[g.key] = g.params[i]
                        changed = True
                for k in n.keywords:
                    if isinstance(k.value, ast.Name) and k.value.id == s and k.arg in g.params:
                        out[g.key] = k.arg
                        changed = True
    return out


def scope_precedence_sites(repo, module: str = "onnx_ir.serde"):
    """[(FuncInfo, node, form, winner)] for every classified lookup over the scope stack; winner ∈ inner|outer."""
    m = repo.modules[module]
    funcs = {f.key: f for f in m.all_funcs}
    sites = []
    for key, s in scope_stack_functions(repo, module).items():
        f = funcs[key]
        for n in own_nodes(f.node):
            if isinstance(n, ast.For):
                r = _is_reversed_of(n.iter, s)
                if r is None:
                    continue
                first_hit = any(isinstance(x, (ast.Break, ast.Return)) for b in n.body for x in ast.walk(b))
                writes = any(
                    (isinstance(x, ast.Call) and isinstance(x.func, ast.Attribute) and x.func.attr in ("update", "setdefault"))
                    or (isinstance(x, (ast.Assign, ast.AugAssign)) and any(isinstance(t, ast.Subscript) for t in (x.targets if isinstance(x, ast.Assign) else [x.target])))
                    for b in n.body for x in ast.walk(b))  # fmt: skip
                setdef = any(isinstance(x, ast.Call) and isinstance(x.func, ast.Attribute) and x.func.attr == "setdefault" for b in n.body for x in ast.walk(b))
                if first_hit:
                    sites.append((f, n, f"first hit of `for … in {norm(n.iter)}`", "inner" if r else "outer"))
                elif writes:
                    last_wins = not setdef
                    inner = (not r) if last_wins else r
                    sites.append((f, n, f"{'last' if last_wins else 'first'} write of `for … in {norm(n.iter)}`", "inner" if inner else "outer"))
                else:
                    # neither stops at the first hit nor builds a map: if the body consumes the scope (reads the loop
                    # variable) every scope that binds the name contributes - no scope "wins"
                    tnames = {x.id for x in ast.walk(n.target) if isinstance(x, ast.Name)}
                    if any(isinstance(x, ast.Name) and x.id in tnames and isinstance(x.ctx, ast.Load) for b in n.body for x in ast.walk(b)):
                        sites.append((f, n, f"every hit of `for … in {norm(n.iter)}` (no break/return)", "all"))
            elif isinstance(n, (ast.DictComp, ast.ListComp, ast.GeneratorExp, ast.SetComp)):
                r = _is_reversed_of(n.generators[0].iter, s)
                if r is None:
                    continue
                if isinstance(n, ast.DictComp):
                    sites.append((f, n, f"dict comprehension over `{norm(n.generators[0].iter)}` (last wins)", "outer" if r else "inner"))
            elif isinstance(n, ast.Call) and (dotted_of(n.func) or "").split(".")[-1] == "ChainMap":
                for a in n.args:
                    if isinstance(a, ast.Starred):
                        r = _is_reversed_of(a.value, s)
                        if r is not None:
                            sites.append((f, n, f"`{norm(n)}` (first mapping wins)", "inner" if r else "outer"))
    return sites


# ------------------------------------------------------------------------------------------------------
# Shared rule S3 — accumulated flags are monotone.  A boolean/counter initialised to a false value outside a
# loop, assigned inside that loop and read after it is an accumulator ("did anything change?"): inside the loop
# it may only be set by monotone forms (True, flag or x, x or flag, |=, +=).  `flag = x` forgets earlier
# iterations.
# ------------------------------------------------------------------------------------------------------
def accumulator_flags(f: FuncInfo) -> set[str]:
    """Names initialised to False/0 and assigned inside a loop (candidates of rule S3)."""
    names = set()
    for n in own_nodes(f.node):
        if isinstance(n, (ast.Assign, ast.AnnAssign)) and getattr(n, "value", None) is not None and isinstance(n.value, ast.Constant) \
                and n.value.value in (False, 0):
            for t in n.targets if isinstance(n, ast.Assign) else [n.target]:
                if isinstance(t, ast.Name):
                    names.add(t.id)
    out = set()
    for n in own_nodes(f.node):
        if isinstance(n, (ast.Assign, ast.AugAssign)):
            t = n.targets[0] if isinstance(n, ast.Assign) else n.target
            if isinstance(t, ast.Name) and t.id in names:
                p = getattr(n, "_parent", None)
                while p is not None and p is not f.node:
                    if isinstance(p, (ast.For, ast.While)):
                        out.add(t.id)
                    p = getattr(p, "_parent", None)
    return out


def nonmonotone_flags(f: FuncInfo):
    """[(flag name, offending assignment, loop)] in function f."""
    out = []
    inits = {}
    for n in own_nodes(f.node):
        if isinstance(n, (ast.Assign, ast.AnnAssign)) and getattr(n, "value", None) is not None and isinstance(n.value, ast.Constant) \
                and n.value.value in (False, 0):
            for t in n.targets if isinstance(n, ast.Assign) else [n.target]:
                if isinstance(t, ast.Name):
                    inits.setdefault(t.id, []).append(n)
    if not inits:
        return out

    def loops_of(node):
        ls = []
        p = getattr(node, "_parent", None)
        while p is not None and p is not f.node:
            if isinstance(p, (ast.For, ast.While, ast.AsyncFor)):
                ls.append(p)
            p = getattr(p, "_parent", None)
        return ls

    for name, init_nodes in inits.items():
        for a in own_nodes(f.node):
            if not (isinstance(a, ast.Assign) and len(a.targets) == 1 and isinstance(a.targets[0], ast.Name) and a.targets[0].id == name):
                continue
            if a in init_nodes:
                continue
            v = a.value
            mono = (isinstance(v, ast.Constant) and bool(v.value)) or (
                isinstance(v, ast.BoolOp) and isinstance(v.op, ast.Or) and any(isinstance(x, ast.Name) and x.id == name for x in v.values)) or (
                isinstance(v, ast.BinOp) and isinstance(v.op, (ast.BitOr, ast.Add)) and any(isinstance(x, ast.Name) and x.id == name for x in (v.left, v.right)))
            if mono or (isinstance(v, ast.Constant) and v.value in (False, 0)):
                continue
            for lp in loops_of(a):
                # an initialisation outside this loop (the accumulator spans the loop) …
                outside = [i for i in init_nodes if lp not in loops_of(i) and not any(i is x for x in ast.walk(lp))]
                if not outside:
                    continue
                # … and a read after the loop
                after = False
                for x in own_nodes(f.node):
                    if isinstance(x, ast.Name) and x.id == name and isinstance(x.ctx, ast.Load) and not any(x is y for y in ast.walk(lp)) \
                            and (x.lineno, x.col_offset) > (lp.end_lineno or lp.lineno, 0):
                        after = True
                if after:
                    out.append((name, a, lp))
                    break
    return out


# ------------------------------------------------------------------------------------------------------
# Shared rule S5 — per-iteration results are built from per-iteration collections.  Inside a loop L, a local
# collection X that is grown in L's body (append/extend/add/update/[k]=) and whose content is stored into an
# object in L's body (obj.attr = …X… / obj[k] = …X…, once per iteration) must be created inside L's body: a
# collection created before the loop carries the elements of earlier iterations into later results.
# ------------------------------------------------------------------------------------------------------
_GROW = ("append", "extend", "add", "update", "insert", "setdefault")


def leaked_iteration_collections(f: FuncInfo, calls: bool = False):
    """[(name, loop, store stmt)] - with calls=True also [(name, loop, call)] where the collection is handed to a call once per
    iteration (a writer called per shard with a dict that still holds the entries of the shards before)."""
    out = []
    for lp in (n for n in own_nodes(f.node) if isinstance(n, (ast.For, ast.While))):
        body_nodes = [x for st in lp.body for x in ast.walk(st)]
        inner_loops = [x for x in body_nodes if isinstance(x, (ast.For, ast.While))]

        def directly_in(x):  # x is in lp's body but not inside a loop nested in lp
            return not any(any(x is y for y in ast.walk(il)) for il in inner_loops)

        grown = set()
        for x in body_nodes:
            if isinstance(x, ast.Call) and isinstance(x.func, ast.Attribute) and x.func.attr in _GROW and isinstance(x.func.value, ast.Name):
                grown.add(x.func.value.id)
            elif isinstance(x, ast.Assign) and isinstance(x.targets[0], ast.Subscript) and isinstance(x.targets[0].value, ast.Name):
                grown.add(x.targets[0].value.id)
        if not grown:
            continue
        created_inside = {t.id for x in body_nodes if isinstance(x, (ast.Assign, ast.AnnAssign)) and getattr(x, "value", None) is not None
                          for t in (x.targets if isinstance(x, ast.Assign) else [x.target]) if isinstance(t, ast.Name)}
        if calls:
            for x in body_nodes:
                if isinstance(x, ast.Call) and directly_in(x) and not (isinstance(x.func, ast.Attribute) and isinstance(x.func.value, ast.Name) and x.func.value.id in grown):
                    for a_ in list(x.args) + [k.value for k in x.keywords]:
                        if isinstance(a_, ast.Name) and a_.id in grown and a_.id not in created_inside and dotted_of(x.func) not in ("len", "print", "isinstance", "id") \
                                and not (dotted_of(x.func) or "").startswith("logger."):
                            if any(isinstance(b, (ast.Assign, ast.AnnAssign)) and getattr(b, "value", None) is not None and any(
                                    isinstance(tt, ast.Name) and tt.id == a_.id for tt in (b.targets if isinstance(b, ast.Assign) else [b.target]))
                                    and not any(b is y for y in body_nodes) for b in own_nodes(f.node)):
                                out.append((a_.id, lp, x))
        for x in body_nodes:
            if not (isinstance(x, ast.Assign) and isinstance(x.targets[0], (ast.Attribute, ast.Subscript)) and directly_in(x)):
                continue
            t = x.targets[0]
            base = t
            while isinstance(base, (ast.Attribute, ast.Subscript)):
                base = base.value
            if not isinstance(base, ast.Name) or base.id in grown:
                continue  # X[k] = … is the growth itself
            used = {y.id for y in ast.walk(x.value) if isinstance(y, ast.Name)} & grown
            for name in sorted(used - created_inside):
                # created before the loop in this function (a local, not a parameter)
                if any(isinstance(a, (ast.Assign, ast.AnnAssign)) and getattr(a, "value", None) is not None and any(
                        isinstance(tt, ast.Name) and tt.id == name for tt in (a.targets if isinstance(a, ast.Assign) else [a.target]))
                        and not any(a is y for y in body_nodes) for a in own_nodes(f.node)):
                    out.append((name, lp, x))
    return out


# ------------------------------------------------------------------------------------------------------
# Shared rule S6 — a memo key determines the memoised value.  In `if K not in M: M[K] = E` (or M.get/M.setdefault
# forms) every loop-varying quantity E reads (attribute chains of the loop variables) must also be read by K:
# otherwise two iterations with the same key but different inputs share one answer.
# ------------------------------------------------------------------------------------------------------
def memo_key_gaps(f: FuncInfo):
    """[(memo name, store stmt, missing attribute chains)]"""
    out = []

    def chains(e, f_node, depth=0):
        # attribute chains rooted at names, following single-assignment locals
        res = set()
        for x in ast.walk(e):
            if isinstance(x, ast.Attribute) and isinstance(x.ctx, ast.Load):
                b = x
                while isinstance(b, ast.Attribute):
                    b = b.value
                if isinstance(b, ast.Name):
                    res.add(norm(x))
            elif isinstance(x, ast.Name) and depth < 3:
                defs = [a.value for a in own_nodes(f_node) if isinstance(a, ast.Assign) and len(a.targets) == 1 and isinstance(a.targets[0], ast.Name)
                        and a.targets[0].id == x.id]
                if len(defs) == 1:
                    res |= chains(defs[0], f_node, depth + 1)
        # keep only maximal chains (a.b.c subsumes a.b)
        return {c for c in res if not any(o != c and o.startswith(c + ".") for o in res)}

    for lp in (n for n in own_nodes(f.node) if isinstance(n, ast.For)):
        lvars = {x.id for x in ast.walk(lp.target) if isinstance(x, ast.Name)}
        for iff in (x for st in lp.body for x in ast.walk(st) if isinstance(x, ast.If)):
            t = iff.test
            if not (isinstance(t, ast.Compare) and len(t.ops) == 1 and isinstance(t.ops[0], ast.NotIn) and isinstance(t.comparators[0], ast.Name)):
                continue
            memo, key = t.comparators[0].id, t.left
            # stores of the memoised answer anywhere under the test (a try around the computation stores in its body and in
            # its handlers)
            for st in (x for b in iff.body for x in ast.walk(b)):
                if isinstance(st, ast.Assign) and isinstance(st.targets[0], ast.Subscript) and isinstance(st.targets[0].value, ast.Name) \
                        and st.targets[0].value.id == memo and norm(st.targets[0].slice) == norm(key):
                    kc = {c for c in chains(key, f.node) if c.split(".")[0] in lvars}
                    vc = {c for c in chains(st.value, f.node) if c.split(".")[0] in lvars}
                    missing = sorted(c for c in vc if c not in kc and not any(k == c or c.startswith(k + ".") for k in kc))
                    if missing or True:
                        out.append((memo, st, missing))
    return out


# ------------------------------------------------------------------------------------------------------
# Shared rule S7 — snapshots consulted in a loop stay fresh.  `S = frozenset(root.path)` (set/tuple/list/dict/
# sorted or a one-generator comprehension over the collection) taken before a loop and consulted inside it for a
# decision (`x in S`, S[x], S.get - directly or in a callee that receives S) describes the collection as it was:
# the loop body - callees that receive `root` included - must not write `root.path`, except for adding the
# loop's own item right after testing that very item (each item is visited once, so no later test is affected).
# ------------------------------------------------------------------------------------------------------
_SNAP_CTORS = {"frozenset", "set", "tuple", "list", "dict", "sorted"}


def _attr_chain(e):
    parts = []
    while isinstance(e, ast.Attribute):
        parts.append(e.attr)
        e = e.value
    if isinstance(e, ast.Name) and parts:
        return e.id, tuple(reversed(parts))
    return None


def _snapshot_source(v):
    a = None
    if isinstance(v, ast.Call) and dotted_of(v.func) in _SNAP_CTORS and len(v.args) == 1 and not v.keywords:
        a = v.args[0]
    elif isinstance(v, (ast.SetComp, ast.ListComp, ast.DictComp)) and len(v.generators) == 1:
        a = v.generators[0].iter
    if a is None:
        return None
    if isinstance(a, ast.Call) and isinstance(a.func, ast.Attribute) and a.func.attr in ("values", "keys", "items") and not a.args:
        a = a.func.value
    return _attr_chain(a)


def _decision_reads(body_nodes, name: str):
    """Nodes among body_nodes that consult the local `name` for a decision (membership, lookup)."""
    out = []
    for n in body_nodes:
        if isinstance(n, ast.Compare) and any(isinstance(o, (ast.In, ast.NotIn)) for o in n.ops) and any(
                isinstance(c, ast.Name) and c.id == name for c in n.comparators):
            out.append(n)
        elif isinstance(n, ast.Subscript) and isinstance(n.value, ast.Name) and n.value.id == name and isinstance(n.ctx, ast.Load):
            out.append(n)
        elif isinstance(n, ast.Call) and isinstance(n.func, ast.Attribute) and isinstance(n.func.value, ast.Name) and n.func.value.id == name \
                and n.func.attr in ("get", "__contains__", "index", "count", "issuperset", "issubset", "isdisjoint"):
            out.append(n)
    return out


def _writes_to(f: FuncInfo, nodes, root: str, path: tuple):
    """Write statements among `nodes` (of function f) to `<root>.<path>` (element writes, mutator calls, rebinding)."""
    from .facts import field_writes

    inside = {id(n) for n in nodes}
    out = []
    for w in field_writes(f):
        if id(w.stmt) not in inside:
            continue
        ch = _attr_chain(w.attr)
        if ch is not None and ch[0] == root and ch[1] == path:
            out.append(w)
    return out


def stale_snapshot_sites(repo, typer, module_prefix: str):
    """[(FuncInfo, snapshot assignment, loop, ok, detail, label)] for every snapshot consulted inside a later loop."""
    sites = []
    for m in repo.modules.values():
        if not m.name.startswith(module_prefix):
            continue
        for f in m.all_funcs:
            if isinstance(f.node, ast.Lambda):
                continue
            for a in own_nodes(f.node):
                if not (isinstance(a, ast.Assign) and len(a.targets) == 1 and isinstance(a.targets[0], ast.Name)):
                    continue
                src = _snapshot_source(a.value)
                if src is None:
                    continue
                sname = a.targets[0].id
                root, path = src
                for lp in own_nodes(f.node):
                    if not isinstance(lp, (ast.For, ast.While)):
                        continue
                    # the snapshot is taken outside (before) the loop and not refreshed inside it
                    inner = [x for b in lp.body for x in ast.walk(b)]
                    if any(x is a for x in inner) or getattr(lp, "lineno", 0) < getattr(a, "lineno", 0):
                        continue
                    if any(isinstance(x, ast.Name) and x.id == sname and isinstance(x.ctx, ast.Store) for x in inner):
                        continue
                    if any(isinstance(x, ast.Name) and x.id == root and isinstance(x.ctx, ast.Store) for x in inner) or (
                            isinstance(lp, ast.For) and any(isinstance(x, ast.Name) and x.id == root for x in ast.walk(lp.target))):
                        continue  # the root is rebound per iteration: a different collection
                    reads = _decision_reads(inner, sname)
                    via = []  # (call, callee, parameter receiving the snapshot)
                    for c in inner:
                        if not isinstance(c, ast.Call):
                            continue
                        g = _callee(repo, typer, f, c)
                        if g is None:
                            continue
                        for i, arg in enumerate(c.args):
                            if isinstance(arg, ast.Name) and arg.id == sname:
                                p = _param_at(g, i, c)
                                if p and _decision_reads(list(own_nodes(g.node)), p):
                                    via.append((c, g, p))
                        for k in c.keywords:
                            if isinstance(k.value, ast.Name) and k.value.id == sname and k.arg in g.params and _decision_reads(list(own_nodes(g.node)), k.arg):
                                via.append((c, g, k.arg))
                    if not reads and not via:
                        continue
                    # writes to the source inside the loop: own statements …
                    writes = [(w.stmt, f"`{norm(w.stmt)[:70]}`") for w in _writes_to(f, inner, root, path)]
                    # … and callees that receive the root
                    for c in inner:
                        if not isinstance(c, ast.Call):
                            continue
                        g = _callee(repo, typer, f, c)
                        if g is None:
                            continue
                        for i, arg in enumerate(c.args):
                            if isinstance(arg, ast.Name) and arg.id == root:
                                p = _param_at(g, i, c)
                                if p:
                                    for w in _writes_to(g, list(own_nodes(g.node)), p, path):
                                        writes.append((c, f"`{norm(w.stmt)[:70]}` in {g.local}"))
                        for k in c.keywords:
                            if isinstance(k.value, ast.Name) and k.value.id == root and k.arg in g.params:
                                for w in _writes_to(g, list(own_nodes(g.node)), k.arg, path):
                                    writes.append((c, f"`{norm(w.stmt)[:70]}` in {g.local}"))
                    # exemption: the loop's own item is added after that very item was tested
                    item = {x.id for x in ast.walk(lp.target) if isinstance(x, ast.Name)} if isinstance(lp, ast.For) else set()
                    tested = set()
                    for r in reads:
                        if isinstance(r, ast.Compare) and isinstance(r.left, ast.Name):
                            tested.add(r.left.id)
                    real = []
                    for st, txt in writes:
                        call = st.value if isinstance(st, ast.Expr) else st
                        if isinstance(call, ast.Call) and isinstance(call.func, ast.Attribute) and call.func.attr in ("append", "add") and len(call.args) == 1 \
                                and isinstance(call.args[0], ast.Name) and call.args[0].id in item and call.args[0].id in tested and not via:
                            continue
                        real.append((st, txt))
                    label = f"snapshot of <{'.'.join(path)}> consulted in a loop"
                    detail = ""
                    if real:
                        where = "in " + ", ".join(sorted({g.local for _, g, _ in via})) if via else "in the loop"
                        detail = (f"`{norm(a)[:80]}` is taken before the loop and consulted {where}, while the loop writes the same collection "
                                  f"({'; '.join(sorted({t for _, t in real}))[:200]}): after the first write the snapshot answers for a collection that no longer exists")
                    sites.append((f, a, lp, not real, detail, label))
    return sites


def _callee(repo, typer, f: FuncInfo, c: ast.Call):
    name = dotted_of(c.func)
    if name and name in f.module.functions:
        return f.module.functions[name]
    if isinstance(c.func, ast.Attribute) and isinstance(c.func.value, ast.Name) and c.func.value.id == "self" and f.owner_class is not None:
        return f.owner_class.methods.get(c.func.attr)
    return None


def _param_at(g: FuncInfo, i: int, c: ast.Call):
    params = list(g.params)
    if params and params[0] in ("self", "cls") and isinstance(c.func, ast.Attribute):
        params = params[1:]
    return params[i] if i < len(params) else None


# ------------------------------------------------------------------------------------------------------
# Shared rule S8 — memoised computations read nothing that can change.  A function under functools.lru_cache /
# functools.cache, or a functools.cached_property, answers later calls from its first answer; the key is the identity
# (hash) of its arguments / of the instance.  Everything it reads (itself and the package helpers it calls, two levels)
# must therefore be immutable: no attribute with a setter, no field assigned outside a constructor, no property
# computed from such a field, and no weak-reference dereference (the referent's liveness is state, and caching the
# referent keeps it alive).
# ------------------------------------------------------------------------------------------------------
_MEMO_DECOS = ("lru_cache", "cache", "cached_property")
_CTORS = ("__init__", "__post_init__", "__new__", "__setstate__", "__init_subclass__")


def memo_sites(repo):
    """[(FuncInfo, decorator name)] for every memoised callable of the package."""
    out = []
    for f in repo.all_funcs():
        if isinstance(f.node, ast.Lambda) or not f.key.startswith("onnx_ir"):
            continue
        for d in f.node.decorator_list:
            name = dotted_of(d.func if isinstance(d, ast.Call) else d) or ""
            if name.split(".")[-1] in _MEMO_DECOS:
                out.append((f, name.split(".")[-1]))
    return out


class _Mutability:
    def __init__(self, repo, typer):
        from .facts import field_writes

        self.repo, self.typer = repo, typer
        self._written: dict[str, list] = {}
        for f in repo.all_funcs():
            if isinstance(f.node, ast.Lambda) or not f.key.startswith("onnx_ir"):
                continue
            for w in field_writes(f):
                self._written.setdefault(w.field, []).append((f, w))
        self._memo: dict = {}

    def mutable(self, k, attr: str, depth=0):
        """None if `k.attr` cannot change after construction, else a short reason."""
        key = (k.key, attr)
        if key in self._memo:
            return self._memo[key]
        self._memo[key] = None  # cycle guard
        res = self._mutable(k, attr, depth)
        self._memo[key] = res
        return res

    def _mutable(self, k, attr, depth):
        repo = self.repo
        for c in repo.mro(k):
            if isinstance(c, str):
                continue
            pr = c.props.get(attr)
            if pr:
                if "set" in pr:
                    return f"{c.name}.{attr} has a setter"
                g = pr.get("get")
                if g is not None and depth < 2:
                    sn = g.params[0] if g.params else "self"
                    for n in own_nodes(g.node):
                        if isinstance(n, ast.Attribute) and isinstance(n.value, ast.Name) and n.value.id == sn and isinstance(n.ctx, ast.Load) and n.attr != attr:
                            why = self.mutable(k, n.attr, depth + 1)
                            if why:
                                return f"{c.name}.{attr} is computed from {why}"
                return None
            if attr in c.methods:
                return None
        if k.is_frozen_dataclass():
            return None
        for f, w in self._written.get(attr, ()):
            if f.name in _CTORS:
                if isinstance(w.recv, ast.Name) and f.params and w.recv.id == f.params[0]:
                    continue
            if isinstance(w.recv, ast.Name) and f.params and w.recv.id == f.params[0] and f.owner_class is not None and f.kind != "staticmethod":
                oc = f.owner_class
                if oc is k or repo.is_subclass(k, oc) or repo.is_subclass(oc, k):
                    return f"{k.name}.{attr} is assigned in {f.local}"
                continue
            try:
                rc = self.typer.recv_classes(f, w.recv)
            except Exception:
                rc = []
            if any(r is k or repo.is_subclass(k, r) for r in rc):
                return f"{k.name}.{attr} is assigned in {f.local}"
        return None


def memo_hazards(repo, typer, f: FuncInfo, mut: _Mutability, depth=0, seen=None):
    """[(node, reason)] - reads of changeable state in memoised function f (package callees followed two levels)."""
    seen = seen if seen is not None else set()
    if f.key in seen:
        return []
    seen.add(f.key)
    out = []
    for n in own_nodes(f.node):
        if isinstance(n, ast.Attribute) and isinstance(n.ctx, ast.Load):
            try:
                rc = typer.recv_classes(f, n.value)
            except Exception:
                rc = []
            for k in rc:
                if not k.key.startswith("onnx_ir"):
                    continue
                why = mut.mutable(k, n.attr)
                if why:
                    out.append((n, f"reads `{norm(n)}`: {why}"))
                    break
        elif isinstance(n, ast.Call):
            # weak-reference dereference: calling a value whose declared type mentions weakref
            fn = n.func
            if not n.args and not n.keywords and _is_weakref_expr(repo, typer, f, fn):
                out.append((n, f"dereferences the weak reference `{norm(fn)}`: whether the referent is alive is state, and the cached answer keeps it alive"))
            elif depth < 2:
                try:
                    hits, _ = typer.callees(f, n, False)
                except Exception:
                    hits = []
                for g in hits:
                    if isinstance(g, FuncInfo) and g.key.startswith("onnx_ir") and not isinstance(g.node, ast.Lambda):
                        for node, why in memo_hazards(repo, typer, g, mut, depth + 1, seen):
                            out.append((n, f"calls {g.local}, which {why}"))
    return out


def _is_weakref_expr(repo, typer, f: FuncInfo, e) -> bool:
    if isinstance(e, ast.Attribute):
        try:
            rc = typer.recv_classes(f, e.value)
        except Exception:
            rc = []
        for k in rc:
            for c in repo.mro(k):
                if isinstance(c, str):
                    continue
                ann = c.ann_fields.get(e.attr)
                if ann is not None and "weakref" in norm(ann):
                    return True
    if isinstance(e, ast.Name):
        for a in own_nodes(f.node):
            if isinstance(a, ast.AnnAssign) and isinstance(a.target, ast.Name) and a.target.id == e.id and "weakref" in norm(a.annotation):
                return True
            if isinstance(a, ast.Assign) and any(isinstance(t, ast.Name) and t.id == e.id for t in a.targets) and "weakref" in norm(a.value):
                return True
    return False


def rule_s8(ctx, rule: str, modules: tuple, consequence: str):
    """Apply S8 to the memoised callables of the given modules (prefix match); one obligation per module and per site."""
    repo, ty = ctx.repo, ctx.typer
    mut = ctx._shared.get("mutability")
    if mut is None:
        mut = ctx._shared["mutability"] = _Mutability(repo, ty)
    # oracle self-check on the current tree: it must tell both kinds of attribute apart somewhere in the package
    n_mut = n_imm = 0
    for m in repo.modules.values():
        if m.external or not m.name.startswith("onnx_ir") or m.name.endswith("_test"):
            continue
        for k in m.classes.values():
            for a in list(k.props)[:6]:
                if mut.mutable(k, a):
                    n_mut += 1
                else:
                    n_imm += 1
    ctx.require(n_mut >= 5 and n_imm >= 5, f"S8 mutability oracle degenerate (mutable={n_mut}, immutable={n_imm})")
    sites = memo_sites(repo)
    scanned = [m for m in repo.modules.values() if any(m.name == p or m.name.startswith(p + ".") for p in modules) and not m.name.endswith("_test")]
    ctx.require(bool(scanned), f"S8: none of the modules {modules} found")
    for m in scanned:
        mine = [(f, d) for f, d in sites if f.module is m]
        ctx.ob(rule, f"S8 {m.name}: {len(mine)} memoised callable(s) examined", True, nontrivial=False, how="decorators lru_cache/cache/cached_property")
        for f, d in mine:
            hz = memo_hazards(repo, ty, f, mut)
            ctx.check(rule, f"S8 {f.local} (@{d}) reads only immutable state", not hz, f, hz[0][0] if hz else f.node,
                      f"{f.local} is memoised (@{d}) but {hz[0][1] if hz else ''}: later calls are answered from the first answer - {consequence}",
                      how="attribute reads and weak-reference dereferences of the memoised body and its package callees (2 levels) × "
                      "mutability of each attribute (setter, assignment outside constructors, properties computed from such)",
                      construct=f"memoised {f.local}: {short(norm(hz[0][0])) if hz else ''}")


# ------------------------------------------------------------------------------------------------------
# Shared rule S9 — composite names are parsed with bounded splits.  The serializer builds names by joining
# components with separators (f"{domain}::{function}", f"{qualified}/{value_name}"); the components are free text and
# may contain the separators.  The parser of such a name must split at the first (or last) occurrence only -
# partition/rpartition or split(sep, 1): an unbounded split followed by a length test or a fixed-size unpacking
# rejects exactly the names whose free component contains the separator, so what was written is not read back.
# ------------------------------------------------------------------------------------------------------
import re as _re


def composite_name_separators(m) -> set[str]:
    seps = set()
    for f in m.all_funcs:
        if isinstance(f.node, ast.Lambda):
            continue
        for n in own_nodes(f.node):
            if isinstance(n, ast.JoinedStr):
                consts = [v.value for v in n.values if isinstance(v, ast.Constant)]
                fvs = [v for v in n.values if isinstance(v, ast.FormattedValue)]
                if len(fvs) >= 2 and consts and all(isinstance(c, str) and _re.fullmatch(r"[^\w\s'\"(){}\[\]<>=,.%]+", c) for c in consts):
                    seps.update(consts)
    return seps


def composite_name_parsers(repo, module="onnx_ir.serde"):
    """[(FuncInfo, split call, separator, ok, why)] for every split of a composite name in the module."""
    m = repo.modules[module]
    seps = composite_name_separators(m)
    out = []
    for f in m.all_funcs:
        if isinstance(f.node, ast.Lambda):
            continue
        for n in own_nodes(f.node):
            if not (isinstance(n, ast.Call) and isinstance(n.func, ast.Attribute) and n.func.attr in ("split", "rsplit", "partition", "rpartition")):
                continue
            if not (n.args and isinstance(n.args[0], ast.Constant) and n.args[0].value in seps):
                continue
            sep = n.args[0].value
            bounded = n.func.attr in ("partition", "rpartition") or len(n.args) >= 2 or any(k.arg == "maxsplit" for k in n.keywords)
            why = ""
            if not bounded:
                # what happens to the parts: fixed-size unpacking or a length test
                p = getattr(n, "_parent", None)
                if isinstance(p, ast.Assign) and any(isinstance(t, (ast.Tuple, ast.List)) for t in p.targets):
                    why = "unpacked into a fixed number of names"
                elif isinstance(p, ast.Assign) and len(p.targets) == 1 and isinstance(p.targets[0], ast.Name):
                    v = p.targets[0].id
                    for x in own_nodes(f.node):
                        if isinstance(x, ast.Compare) and any(isinstance(y, ast.Call) and dotted_of(y.func) == "len" and y.args and isinstance(y.args[0], ast.Name)
                                                              and y.args[0].id == v for y in ast.walk(x)):
                            why = f"length of the parts tested (`{norm(x)}`)"
                            break
                        if isinstance(x, ast.Assign) and isinstance(x.value, ast.Name) and x.value.id == v and any(isinstance(t, (ast.Tuple, ast.List)) for t in x.targets):
                            why = "unpacked into a fixed number of names"
                            break
                else:
                    why = "used as a whole"
            out.append((f, n, sep, bounded or not why or why == "used as a whole", why))
    return out


def _inner_formats(m, f, want_fields=False):
    """(inner, nodes): `inner` maps a local of the top-level function `f` bound to an f-string `{A}<s1>{B}` to <s1> (or to
    (<s1>, A, B)); `nodes` are the nodes in which an outer f-string `{local}<s2>{C}` may stand - the function itself and the
    module's private helpers that receive the local as an argument (under the parameter's name)."""
    inner = {}
    for n in ast.walk(f.node):
        if isinstance(n, ast.Assign) and isinstance(n.value, ast.JoinedStr) and isinstance(n.targets[0], ast.Name) and len(n.value.values) == 3 \
                and isinstance(n.value.values[1], ast.Constant) and isinstance(n.value.values[0], ast.FormattedValue) and isinstance(n.value.values[2], ast.FormattedValue):
            v = n.value.values
            inner[n.targets[0].id] = (v[1].value, norm(v[0].value), norm(v[2].value)) if want_fields else v[1].value
    nodes = list(ast.walk(f.node))
    by_name = {g.node.name: g for g in m.all_funcs if g.parent is None and g.cls is None and isinstance(g.node, (ast.FunctionDef, ast.AsyncFunctionDef))}
    for c in list(nodes):
        if not (isinstance(c, ast.Call) and isinstance(c.func, ast.Name) and c.func.id in by_name and by_name[c.func.id] is not f):
            continue
        g = by_name[c.func.id]
        a = g.node.args
        pos = [x.arg for x in a.posonlyargs + a.args]
        passed = {}
        for i, x in enumerate(c.args):
            if isinstance(x, ast.Name) and x.id in inner and i < len(pos):
                passed[pos[i]] = inner[x.id]
        for k in c.keywords:
            if k.arg and isinstance(k.value, ast.Name) and k.value.id in inner:
                passed[k.arg] = inner[k.value.id]
        if passed and all(inner.get(k, v) == v for k, v in passed.items()):
            inner.update(passed)
            nodes.extend(ast.walk(g.node))
    return inner, nodes



def composite_name_order(repo, module="onnx_ir.serde"):
    """[(parser function, offending split call, first separator, second separator)]: the composite name is written
    `{A}<s1>{B}<s2>{C}` (an f-string with <s1> bound to a local that is the first field of an f-string with <s2>); a parser
    splits the whole name at <s1> first and the remainder at <s2> - splitting at <s2> first cuts an <A> that contains <s2>."""
    m = repo.modules[module]
    order = []  # (s1, s2)
    for f in m.all_funcs:
        if isinstance(f.node, ast.Lambda):
            continue
        if f.parent is not None:
            continue  # nested helpers are scanned with the function that defines them (closures over the inner name)
        inner, nodes = _inner_formats(m, f)
        for n in nodes:
            if isinstance(n, ast.JoinedStr) and len(n.values) == 3 and isinstance(n.values[0], ast.FormattedValue) and isinstance(n.values[0].value, ast.Name) \
                    and n.values[0].value.id in inner and isinstance(n.values[1], ast.Constant):
                order.append((inner[n.values[0].value.id], n.values[1].value))
    out, examined = [], 0
    for s1, s2 in sorted(set(order)):
        for f in m.all_funcs:
            if isinstance(f.node, ast.Lambda):
                continue
            splits = [c for c in own_nodes(f.node) if isinstance(c, ast.Call) and isinstance(c.func, ast.Attribute) and c.func.attr in ("partition", "split", "rpartition", "rsplit")
                      and c.args and isinstance(c.args[0], ast.Constant) and c.args[0].value in (s1, s2)]
            if not ({c.args[0].value for c in splits} >= {s1, s2}):
                continue
            examined += 1
            first = next(c for c in splits if c.args[0].value == s1)
            second = next(c for c in splits if c.args[0].value == s2)
            # the <s1> split works on a parameter (the whole name); the <s2> split on a local bound by the <s1> split
            whole = isinstance(first.func.value, ast.Name) and first.func.value.id in f.params
            p1 = getattr(first, "_parent", None)
            while p1 is not None and not isinstance(p1, (ast.Assign, ast.AnnAssign, ast.stmt)):
                p1 = getattr(p1, "_parent", None)
            bound = {x.id for t in getattr(p1, "targets", []) for x in ast.walk(t) if isinstance(x, ast.Name)} if isinstance(p1, ast.Assign) else set()
            rest = isinstance(second.func.value, ast.Name) and second.func.value.id in bound
            if not (whole and rest):
                out.append((f, second, s1, s2))
    return out, examined


def rule_s9(ctx, rule: str, consequence: str):
    bad, examined = composite_name_order(ctx.repo)
    for f, call, s1, s2 in bad:
        ctx.check(rule, f"S9 {f.local}: the composite name is taken apart in the order it is written ({s1!r} before {s2!r})", False, f, call,
                  f"the name is written {{A}}{s1}{{B}}{s2}{{C}} but `{norm(call)}` splits at {s2!r} before {s1!r} was split off: a first component that contains "
                  f"{s2!r} (a domain such as github.com/foo) is cut in two and the entry is not recognised; {consequence}",
                  how="order of the separators in the serializer's nested f-strings vs receivers of the parser's splits", construct=f"split at {s2!r} before {s1!r}")
    if examined:
        ctx.ob(rule, f"S9: {examined} parser(s) split the composite name in the order it is written", not bad, nontrivial=False, how="receiver chain of the splits")
    n = 0
    for f, call, sep, ok, why in composite_name_parsers(ctx.repo):
        n += 1
        ctx.check(rule, f"S9 {f.local}: `{norm(call)}` splits the composite name at one occurrence of {sep!r}", ok, f, call,
                  f"`{norm(call)}` splits at every {sep!r} and the result is {why}: a name whose free-text component contains {sep!r} - which the "
                  f"serializer writes as it is - is not recognised when read back; {consequence}",
                  how="separators of the module's composite-name f-strings × split calls on those separators (partition / maxsplit=1 vs unbounded + length test)",
                  construct=f"unbounded split on {sep!r}")
    # readers that do not split at all: the qualified name is rebuilt with the serializer's own format for every known
    # function and the stored name is matched against it (unambiguous whatever the components contain) - provided every
    # occurrence of the second separator is tried as the boundary, not just the first
    n_lookup = 0
    for f, site, s2, ok in composite_name_lookups(ctx.repo):
        n_lookup += 1
        ctx.check(rule, f"S9 {f.local}: every {s2!r} of the stored name is tried as the end of a known qualified name", ok, f, site,
                  f"the qualified names of the known functions are looked up, but only at one occurrence of {s2!r} (`{norm(site)[:60]}` outside a loop over the "
                  f"occurrences): a function whose name contains {s2!r} is not recognised when its entries are read back; {consequence}",
                  how="lookup idiom: key built with the writer's f-string; find/index of the second separator advanced in a loop", construct=f"one occurrence of {s2!r} tried")
    # readers that split by guessing are only right when the writer refuses components that contain the separator that ends them
    for f, s, comp in composite_name_ambiguities(ctx.repo):
        ctx.check(rule, f"S9 {f.local}: a component that contains {s!r} is refused when the name is written", False, f, f.node,
                  f"the name is read back by splitting at the first {s!r}, and the component before it ({comp}) is written as it is: when it contains {s!r} itself "
                  f"(a domain such as a::b, a function called f/g) the entry is attributed to a function that does not exist and dropped; {consequence}",
                  how="split idiom: first-occurrence split in the reader ↔ `<sep> in <component>` test in the writer (or the lookup idiom instead)",
                  construct=f"component before {s!r} not refused")
    ctx.require(n >= 2 or n_lookup >= 1, "no reader of composite names found in serde (format {domain}::{function}/{value} expected)")


def _composite_formats(m):
    """[(function, s1, s2, A, B)] for names written `{A}<s1>{B}<s2>{C}`: an f-string `{A}<s1>{B}` bound to a local that is the first
    field of an f-string `{local}<s2>{C}` in the same top-level function (nested helpers included)."""
    out = []
    for f in m.all_funcs:
        if isinstance(f.node, ast.Lambda) or f.parent is not None:
            continue
        inner, nodes = _inner_formats(m, f, want_fields=True)
        for n in nodes:
            if isinstance(n, ast.JoinedStr) and len(n.values) == 3 and isinstance(n.values[0], ast.FormattedValue) and isinstance(n.values[0].value, ast.Name) \
                    and n.values[0].value.id in inner and isinstance(n.values[1], ast.Constant):
                s1, a, b = inner[n.values[0].value.id]
                out.append((f, s1, n.values[1].value, a, b))
    return out


def composite_name_lookups(repo, module="onnx_ir.serde"):
    """[(reader, find call, second separator, every occurrence tried)]: a function that builds `{A}<s1>{B}` (the writer's inner format)
    as a table key and searches the stored name for <s2>."""
    m = repo.modules[module]
    out = []
    for _w, s1, s2, _a, _b in sorted({(None, x[1], x[2], None, None) for x in _composite_formats(m)}):
        for f in m.all_funcs:
            if isinstance(f.node, ast.Lambda):
                continue
            keys = [n for n in own_nodes(f.node) if isinstance(n, ast.JoinedStr) and len(n.values) == 3 and isinstance(n.values[1], ast.Constant) and n.values[1].value == s1
                    and isinstance(getattr(n, "_parent", None), (ast.Subscript, ast.DictComp, ast.Dict))]
            finds = [c for c in own_nodes(f.node) if isinstance(c, ast.Call) and isinstance(c.func, ast.Attribute) and c.func.attr in ("find", "index", "rfind", "rindex")
                     and c.args and isinstance(c.args[0], ast.Constant) and c.args[0].value == s2]
            # … or walks the name character by character: `for i, ch in enumerate(name): if ch != <s2>: continue`
            walks = []
            for lp in (x for x in own_nodes(f.node) if isinstance(x, ast.For)):
                tg = lp.target.elts[-1] if isinstance(lp.target, ast.Tuple) and lp.target.elts else lp.target
                if not isinstance(tg, ast.Name):
                    continue
                for x in ast.walk(lp):
                    # `ch != "/"` on the loop's character, or `name[i] != "/"` on its index
                    if isinstance(x, ast.Compare) and len(x.ops) == 1 and isinstance(x.ops[0], (ast.Eq, ast.NotEq)) and isinstance(x.comparators[0], ast.Constant) \
                            and x.comparators[0].value == s2 and any(isinstance(y, ast.Name) and y.id == tg.id for y in ast.walk(x.left)):
                        walks.append((lp, x))
                    # `"/".join(parts[:i])` over the pieces of an unbounded split at the separator: every boundary is rebuilt
                    if isinstance(x, ast.Call) and isinstance(x.func, ast.Attribute) and x.func.attr == "join" and isinstance(x.func.value, ast.Constant) and x.func.value.value == s2 \
                            and any(isinstance(y, ast.Name) and y.id == tg.id for a in x.args for y in ast.walk(a)):
                        walks.append((lp, x))
            if not keys or not (finds or walks):
                continue
            advancing = [c for c in finds if len(c.args) >= 2 and any(isinstance(a, (ast.While, ast.For)) for a in _ancestors(c, f.node))]
            # a walk tries every occurrence unless it is left at the first one
            complete = [x for lp, x in walks if not any(isinstance(y, (ast.Break, ast.Return)) for y in ast.walk(lp))]
            site = (advancing or complete or finds or [x for _lp, x in walks])[0]
            out.append((f, site, s2, bool(advancing or complete)))
    return out


def _ancestors(n, stop):
    p = getattr(n, "_parent", None)
    while p is not None and p is not stop:
        yield p
        p = getattr(p, "_parent", None)


def composite_name_ambiguities(repo, module="onnx_ir.serde"):
    """[(writer, separator, component text)]: the name is read back by first-occurrence splits (s1 from the whole name, then s2 from
    the rest) and the writer puts the component that precedes a separator into the name without testing it for that separator."""
    m = repo.modules[module]
    out = []
    for w, s1, s2, a, b in _composite_formats(m):
        split_readers = []
        for f in m.all_funcs:
            if isinstance(f.node, ast.Lambda):
                continue
            splits = {c.args[0].value for c in own_nodes(f.node) if isinstance(c, ast.Call) and isinstance(c.func, ast.Attribute)
                      and c.func.attr in ("partition", "split", "rpartition", "rsplit") and c.args and isinstance(c.args[0], ast.Constant)}
            if {s1, s2} <= splits:
                split_readers.append(f)
        if not split_readers:
            continue
        tests = {(x.left.value, norm(x.comparators[0])) for x in ast.walk(w.node) if isinstance(x, ast.Compare) and len(x.ops) == 1 and isinstance(x.ops[0], (ast.In, ast.NotIn))
                 and isinstance(x.left, ast.Constant)}
        for sep, comp in ((s1, a), (s2, b)):
            if (sep, comp) not in tests:
                out.append((w, sep, comp))
    return out


# ---------------------------------------------------------------------------------------------------------------------- S10
def _annotation_sources(repo, typer, f: FuncInfo, e, depth: int = 0):
    """Declared types (annotation expressions) of the places a tested expression takes its value from: parameters, annotated
    fields and property getters behind attribute reads, and - through locals - assigned values, the values of a dict display
    iterated with .items()/.values(), and the elements of a tuple/list display that is iterated."""
    if depth > 4:
        return
    if isinstance(e, ast.Attribute):
        found = False
        for k in typer.recv_classes(f, e.value):
            hit = repo.lookup(k, e.attr)
            if isinstance(hit, dict) and "get" in hit and getattr(hit["get"].node, "returns", None) is not None:
                found = True
                yield hit["get"].node.returns, f"{k.name}.{e.attr}"
            for kk in repo.mro(k):
                if hasattr(kk, "ann_fields") and e.attr in kk.ann_fields:
                    found = True
                    yield kk.ann_fields[e.attr], f"{kk.name}.{e.attr}"
                    break
        if not found:
            # receiver narrowed by isinstance (or untyped): every property of that name in the package
            for m in repo.pkg_modules():
                for k in m.classes.values():
                    p_ = k.props.get(e.attr)
                    if p_ and "get" in p_ and getattr(p_["get"].node, "returns", None) is not None:
                        yield p_["get"].node.returns, f"{k.name}.{e.attr}"
        return
    if not isinstance(e, ast.Name):
        return
    a = getattr(f.node, "args", None)
    if a is not None:
        for x in a.posonlyargs + a.args + a.kwonlyargs:
            if x.arg == e.id and x.annotation is not None:
                yield x.annotation, f"parameter {e.id}"
    for n in own_nodes(f.node):
        if isinstance(n, ast.Assign) and any(isinstance(t, ast.Name) and t.id == e.id for t in n.targets):
            yield from _annotation_sources(repo, typer, f, n.value, depth + 1)
        elif isinstance(n, ast.AnnAssign) and isinstance(n.target, ast.Name) and n.target.id == e.id:
            yield n.annotation, f"local {e.id}"
        elif isinstance(n, (ast.For, ast.comprehension)):
            tgt, it = n.target, n.iter
            pos = None
            if isinstance(tgt, ast.Name) and tgt.id == e.id:
                pos = "elem"
            elif isinstance(tgt, ast.Tuple) and len(tgt.elts) == 2 and isinstance(tgt.elts[1], ast.Name) and tgt.elts[1].id == e.id:
                pos = "value"
            if pos is None:
                continue
            src = it
            if isinstance(it, ast.Call) and isinstance(it.func, ast.Attribute) and it.func.attr in ("items", "values") and not it.args:
                if (pos == "value") != (it.func.attr == "items"):
                    continue
                src = it.func.value
            elif pos == "value":
                continue
            for _ in range(2):
                if isinstance(src, ast.Name):
                    binds = [x.value for x in own_nodes(f.node) if isinstance(x, ast.Assign) and any(isinstance(t, ast.Name) and t.id == src.id for t in x.targets)]
                    if len(binds) == 1:
                        src = binds[0]
            if isinstance(src, ast.Dict):
                for v in src.values:
                    yield from _annotation_sources(repo, typer, f, v, depth + 1)
            elif isinstance(src, (ast.Tuple, ast.List, ast.Set)) and pos == "elem":
                for v in src.elts:
                    yield from _annotation_sources(repo, typer, f, v, depth + 1)


def _optional_number(ann) -> bool:
    import re

    t = norm(ann)
    return bool(re.search(r"\bNone\b|\bOptional\b", t)) and bool(re.search(r"\b(int|float)\b", t)) and not re.search(r"\b(Sequence|list|tuple|Iterable|Mapping|dict)\b", t)


def optional_number_truth_tests(repo, typer, f: FuncInfo):
    """Shared rule S10: [(test node, tested expression, source description)] for every truthiness test (`if x`, `if not x`, an
    operand of and/or, `x if x else …`) of an expression whose declared type is an optional number (`int | None`): 0 is a
    value, not an absence."""
    out = []
    seen = set()

    def tested(t):
        while isinstance(t, ast.UnaryOp) and isinstance(t.op, ast.Not):
            t = t.operand
        if isinstance(t, ast.BoolOp):
            for v in t.values:
                yield from tested(v)
        elif isinstance(t, (ast.Name, ast.Attribute)):
            yield t

    for n in own_nodes(f.node):
        tests = []
        if isinstance(n, (ast.If, ast.While, ast.IfExp)):
            tests = list(tested(n.test))
        elif isinstance(n, ast.BoolOp) and not isinstance(getattr(n, "_parent", None), (ast.If, ast.While, ast.IfExp, ast.BoolOp, ast.UnaryOp)):
            tests = [v for v in n.values[:-1] if isinstance(v, (ast.Name, ast.Attribute))]
        elif isinstance(n, ast.comprehension):
            tests = [x for c in n.ifs for x in tested(c)]
        for t in tests:
            if id(t) in seen:
                continue
            seen.add(id(t))
            for ann, src in _annotation_sources(repo, typer, f, t):
                if _optional_number(ann):
                    out.append((n, t, src))
                    break
    return out


# ---------------------------------------------------------------------------------------------------------------------- S11
def _mutable_display(e) -> bool:
    if isinstance(e, (ast.List, ast.Dict, ast.Set, ast.ListComp, ast.DictComp, ast.SetComp)):
        return True
    return isinstance(e, ast.Call) and dotted_of(e.func) in ("list", "dict", "set", "collections.defaultdict", "defaultdict", "collections.OrderedDict",
                                                            "OrderedDict", "collections.deque", "deque", "collections.Counter", "Counter", "bytearray")


def shared_mutable_arguments(repo, typer, ef, modules):
    """Shared rule S11: [(function, call, argument, what, callee)] where a container that outlives the call - a module-level
    list / dict / set, or a parameter default that is one - is handed to a package function that writes to that parameter
    (effect summary: a write rooted at it).  State then leaks from one call into the next: what an aborted call left in the
    container is seen by every later call."""
    out = []
    n_args = 0
    for mn in modules:
        m = repo.module(mn)
        shared = {k: v for k, v in m.assigns.items() if _mutable_display(v)}
        for f in m.all_funcs:
            if isinstance(f.node, ast.Lambda):
                continue
            defaults = {}
            a = f.node.args
            pos = a.posonlyargs + a.args
            for p_, d in zip(reversed(pos), reversed(a.defaults)):
                if _mutable_display(d):
                    defaults[p_.arg] = d
            for p_, d in zip(a.kwonlyargs, a.kw_defaults):
                if d is not None and _mutable_display(d):
                    defaults[p_.arg] = d
            local = {x.id for x in own_nodes(f.node) if isinstance(x, ast.Name) and not isinstance(x.ctx, ast.Load)}
            for c in own_nodes(f.node):
                if not isinstance(c, ast.Call):
                    continue
                try:
                    hits, _ = typer.callees(f, c, False)
                except Exception:
                    hits = []
                for i, arg in enumerate(list(c.args) + [k.value for k in c.keywords]):
                    if not isinstance(arg, ast.Name):
                        # a display or any other expression: examined (counted) when the callee writes to that parameter
                        for g in hits:
                            if isinstance(g.node, ast.Lambda):
                                continue
                            off = 1 if (g.cls is not None and g.kind not in ("staticmethod",) and isinstance(c.func, ast.Attribute)) else 0
                            pi = i + off if i < len(c.args) else (g.params.index(c.keywords[i - len(c.args)].arg) if c.keywords[i - len(c.args)].arg in g.params else None)
                            if pi is not None and any(tag == f"p{pi}" for tag, _ in ef.summary(g).mods):
                                n_args += 1
                                break
                        continue
                    what = None
                    if arg.id in shared and arg.id not in local and arg.id not in f.params:
                        what = f"module-level `{arg.id} = {norm(shared[arg.id])[:30]}`"
                    elif arg.id in defaults and arg.id not in local:
                        what = f"default `{arg.id}={norm(defaults[arg.id])[:30]}` of {f.local}"
                    if what is None:
                        continue
                    n_args += 1
                    for g in hits:
                        if isinstance(g.node, ast.Lambda):
                            continue
                        off = 1 if (g.cls is not None and g.kind not in ("staticmethod",) and isinstance(c.func, ast.Attribute)) else 0
                        if i < len(c.args):
                            pi = i + off
                        else:
                            kw = c.keywords[i - len(c.args)].arg
                            pi = g.params.index(kw) if kw in g.params else None
                        if pi is None:
                            continue
                        s = ef.summary(g)
                        if any(tag == f"p{pi}" for tag, _ in s.mods):
                            out.append((f, c, arg, what, g))
    return out, n_args


# ---------------------------------------------------------------------------------------------------------------------- S12
def sized_state_classes(repo) -> set[str]:
    """Names of package classes that define __len__ / __bool__ (or inherit it from a package class) and carry state besides
    their elements (more than one slot / field): an *empty* instance is a value, not an absence - Graph, Function, GraphView, Shape."""
    out = set()
    for m in repo.pkg_modules():
        for c in m.classes.values():
            sized = False
            for k in repo.mro(c):
                if hasattr(k, "methods") and not getattr(k, "external", False) and ("__len__" in k.methods or "__bool__" in k.methods):
                    sized = True
            if sized and (c.slots is None or len(c.slots) > 1):
                out.add(c.name)
    return out


def sized_payload_truth_tests(repo, typer, f: FuncInfo):
    """Shared rule S12: [(test node, tested expression, source, class)] for truthiness tests of an expression whose declared type is
    (or may be, for the `Any`-typed value of an attribute) an instance of a sized package class with further state."""
    import re

    sized = sized_state_classes(repo)
    out, seen = [], set()

    def tested(t):
        while isinstance(t, ast.UnaryOp) and isinstance(t.op, ast.Not):
            t = t.operand
        if isinstance(t, ast.BoolOp):
            for v in t.values:
                yield from tested(v)
        elif isinstance(t, (ast.Name, ast.Attribute)):
            yield t

    for n in own_nodes(f.node):
        tests = []
        if isinstance(n, (ast.If, ast.While, ast.IfExp)):
            tests = list(tested(n.test))
        elif isinstance(n, ast.BoolOp) and not isinstance(getattr(n, "_parent", None), (ast.If, ast.While, ast.IfExp, ast.BoolOp, ast.UnaryOp)):
            tests = [v for v in n.values[:-1] if isinstance(v, (ast.Name, ast.Attribute))]
        elif isinstance(n, ast.comprehension):
            tests = [x for c in n.ifs for x in tested(c)]
        for t in tests:
            if id(t) in seen:
                continue
            seen.add(id(t))
            for ann, src in _annotation_sources(repo, typer, f, t):
                txt = norm(ann)
                f._s12_examined = getattr(f, "_s12_examined", 0) + 1
                names = set(re.findall(r"[A-Za-z_][A-Za-z0-9_]*", txt))
                hit = sorted((names & sized) - {"MetadataStore", "DoublyLinkedSet"})  # plain containers: empty means nothing to transfer
                if hit:
                    out.append((n, t, src, hit[0]))
                    break
                if txt == "Any" and src.split(".")[-1] == "value" and ("Attr" in src):
                    out.append((n, t, src, "Any (the value of a GRAPH attribute is a Graph)"))
                    break
    return out



def rule_s12(ctx, rule: str, funcs, consequence: str, floor: int = 10):
    """S12 over the given functions."""
    n = 0
    for f in funcs:
        if isinstance(f.node, ast.Lambda):
            continue
        f._s12_examined = 0
        hits = sized_payload_truth_tests(ctx.repo, ctx.typer, f)
        n += f._s12_examined
        for node, t, src, cls in hits:
            ctx.check(rule, f"S12 {f.local}: presence of {norm(t)} ({src}) is tested with `is None`", False, f, node,
                      f"`{norm(t)}` is tested by truthiness but it is declared `{src}`: {cls} - an instance without elements (the shape () of a scalar, a graph "
                      f"without nodes) is falsy although it is a known value; {consequence}",
                      how="declared type of the tested expression (S10 source tracing) vs package classes defining __len__/__bool__ with further state",
                      construct=f"truthiness of {src}")
    for _ in range(n):
        ctx.counts[rule] = ctx.counts.get(rule, 0) + 1
    ctx.ob(rule, f"{n} truthiness tests with a declared type examined", True, nontrivial=False, how="S12")
    ctx.require(n >= floor, f"only {n} typed truthiness tests found")

# ---------------------------------------------------------------------------------------------------------------------- S13
_CONSUMERS = {"tuple", "list", "set", "frozenset", "sorted", "dict", "enumerate", "zip", "reversed", "any", "all", "sum", "min", "max", "map", "filter", "iter"}


def iterable_consumed_twice(f: FuncInfo):
    """Shared rule S13: [(parameter, first consumption, second consumption)] - a parameter that may be a one-shot iterable (its
    annotation mentions Iterable / Iterator, or it has none) is iterated at two points with the second reachable from the first
    and no rebinding of the parameter to a materialised copy (`p = tuple(p)`) in between: for a generator argument the second
    pass sees nothing, so a validation loop after `frozenset(nodes)` validates no element at all."""
    from .cfg import CFG

    out = []
    a = getattr(f.node, "args", None)
    if a is None:
        return out
    params = []
    for x in a.posonlyargs + a.args + a.kwonlyargs:
        if x.arg in ("self", "cls"):
            continue
        ann = norm(x.annotation) if x.annotation is not None else ""
        if "Iterable" in ann or "Iterator" in ann:
            params.append(x.arg)
    if not params:
        return out
    cfg = CFG(f.node)
    for p in params:
        cons, rebinds = [], []
        for n in cfg.nodes:
            for e in n.exprs():
                if isinstance(e, (ast.FunctionDef, ast.AsyncFunctionDef, ast.ClassDef)):
                    continue
                if n.kind == "iter" and isinstance(e, ast.Name) and e.id == p:
                    cons.append((n, e))
                    continue
                if isinstance(e, ast.Assign) and any(isinstance(t, ast.Name) and t.id == p for t in e.targets):
                    rebinds.append(n)
                for x in ast.walk(e):
                    if isinstance(x, ast.Call) and dotted_of(x.func) in _CONSUMERS and any(isinstance(y, ast.Name) and y.id == p for y in x.args):
                        cons.append((n, x))
                    elif isinstance(x, ast.comprehension) and isinstance(x.iter, ast.Name) and x.iter.id == p:
                        cons.append((n, x.iter))
                    elif isinstance(x, ast.Starred) and isinstance(x.value, ast.Name) and x.value.id == p:
                        cons.append((n, x))
        rb = {n.id for n in rebinds}
        # a consumption counts only where the name can still be the caller's iterable: some path from the entry reaches it
        # without passing a rebinding (`p = tuple(p)` first, then any number of loops over p, is fine)
        cons = [(n, e) for n, e in cons if n.id in rb or cfg.path_exists_avoiding(cfg.entry, {n.id}, rb, exc=False)]
        for i, (n1, e1) in enumerate(cons):
            for n2, e2 in cons[i + 1 :] + cons[:i]:
                if n1.id == n2.id and e1 is e2:
                    continue
                if n1.id in rb:
                    continue  # `p = tuple(p)`: the consumption rebinds p to the materialised copy
                if n1.id != n2.id and cfg.path_exists_avoiding(n1, {n2.id}, rb, exc=False):
                    out.append((p, e1, e2))
                    break
            else:
                continue
            break
    return out


# ----------------------------------------------------------------------------------------------------------------- S14
_MEMO_DECORATORS = {"functools.cache", "functools.lru_cache", "cache", "lru_cache", "functools.cached_property", "cached_property"}
_IMMUTABLE_ANNOTATIONS = {"str", "int", "bool", "float", "bytes", "complex", "None", "type"}


def memoised_over_mutable_arguments(repo: Repo, modules: set[str] | None = None):
    """Shared rule S14: [(function, decorator node, parameter)] - a function whose results are memoised (functools.cache /
    lru_cache / cached_property) takes an argument that is not an immutable scalar (str, int, bool, float, bytes, an enum member):
    the cache is keyed by the identity of a live, mutable object (a graph, a node, a value) and is never invalidated, so the
    answer computed at the first call is handed out again after the object was edited - state survives between calls.  Also
    returns the number of memoised functions examined."""
    out, n = [], 0
    for m in repo.pkg_modules():
        if modules is not None and m.name not in modules:
            continue
        for f in m.all_funcs:
            if isinstance(f.node, ast.Lambda):
                continue
            for d in f.node.decorator_list:
                name = dotted_of(d.func if isinstance(d, ast.Call) else d) or ""
                if name not in _MEMO_DECORATORS:
                    continue
                n += 1
                a = f.node.args
                params = a.posonlyargs + a.args + a.kwonlyargs
                if a.vararg is not None:
                    params = params + [a.vararg]
                if a.kwarg is not None:
                    params = params + [a.kwarg]
                for x in params:
                    ann = norm(x.annotation) if x.annotation is not None else ""
                    parts = {p.strip() for p in ann.replace("Optional[", "").replace("]", "").split("|")} if ann else set()
                    immutable = bool(parts) and all(p in _IMMUTABLE_ANNOTATIONS or _is_enum_annotation(repo, m, p) for p in parts)
                    if not immutable:
                        out.append((f, d, x.arg))
                        break
    return out, n


def _is_enum_annotation(repo: Repo, m, text: str) -> bool:
    try:
        obj = repo.resolve_global(repo.expand_dotted(m, text))
    except Exception:
        return False
    if not isinstance(obj, ClassInfo):
        return False
    for k in repo.mro(obj):
        nm = getattr(k, "name", "") or str(k)
        if nm in ("Enum", "IntEnum", "Flag", "IntFlag") or str(nm).endswith((".Enum", ".IntEnum")):
            return True
    return False


def rule_s14(ctx, rid: str, in_scope, consequence: str, expect_memoised: int = 0):
    """Report S14 under rule `rid` for the modules `in_scope(name)` selects."""
    mods = {m.name for m in ctx.repo.pkg_modules() if in_scope(m.name)}
    ctx.require(bool(mods), f"{rid}: no module in scope of the memoisation rule")
    hits, n = memoised_over_mutable_arguments(ctx.repo, mods)
    for f, d, param in hits:
        ctx.check(rid, f"{f.local}: memoised over `{param}`", False, f, d,
                  f"`@{norm(d)[:50]}` memoises {f.local} by the identity of `{param}`, a live object that can be edited afterwards: the answer of the first "
                  f"call is handed out again after the edit - {consequence}",
                  how="decorators functools.cache / lru_cache / cached_property on functions with a parameter that is not an immutable scalar or enum",
                  construct=f"memoised over {param}")
    ctx.ob(rid, f"{len(mods)} module(s), {n} memoised function(s): none is keyed by a mutable argument", not hits, nontrivial=False,
           how="shared rule S14") if not hits else None
    ctx.require(n >= expect_memoised, f"{rid}: expected at least {expect_memoised} memoised function(s) in scope, found {n}")


# ----------------------------------------------------------------------------------------------------------------- S15
def scope_continuity_sites(repo, module: str = "onnx_ir.serde"):
    """Shared rule S15: [(function, call, ok, why)] - inside a function that holds the stack of enclosing scopes (S2's stack
    functions), every call that ends up deserializing a graph hands that very stack on.  A call to an entry point that starts
    a *fresh* stack (`_deserialize_graph(proto, [])` behind `deserialize_graph`) cuts the nested graph off from the enclosing
    scopes: the outer values it captures are re-created as detached values of the same name, so the use-def links across
    scopes are lost although every name survives."""
    m = repo.modules[module]
    stack_of = scope_stack_functions(repo, module)
    funcs = {f.key: f for f in m.all_funcs if not isinstance(f.node, ast.Lambda)}

    def callee(f, n):
        name = dotted_of(n.func)
        return m.functions.get(name) if name else None

    # functions that start a fresh stack: they hand a list display to a stack function's stack parameter
    fresh: dict[str, str] = {}
    for f in funcs.values():
        if f.key in stack_of:
            continue
        for n in own_nodes(f.node):
            if not isinstance(n, ast.Call):
                continue
            g = callee(f, n)
            if g is None or g.key not in stack_of:
                continue
            p = stack_of[g.key]
            i = g.params.index(p) if p in g.params else -1
            a = n.args[i] if 0 <= i < len(n.args) else next((k.value for k in n.keywords if k.arg == p), None)
            if isinstance(a, (ast.List, ast.Tuple)) or (isinstance(a, ast.Call) and dotted_of(a.func) in ("list", "collections.deque")):
                fresh[f.key] = f"starts a fresh scope stack for {g.name}"
    changed = True
    while changed:
        changed = False
        for f in funcs.values():
            if f.key in stack_of or f.key in fresh:
                continue
            for n in own_nodes(f.node):
                if isinstance(n, ast.Call):
                    g = callee(f, n)
                    if g is not None and g.key in fresh:
                        fresh[f.key] = f"calls {g.name}, which {fresh[g.key]}"
                        changed = True
                        break
    out = []
    for key, s in stack_of.items():
        f = funcs.get(key)
        if f is None:
            continue
        for n in own_nodes(f.node):
            if not isinstance(n, ast.Call):
                continue
            g = callee(f, n)
            if g is None:
                continue
            if g.key in stack_of:
                p = stack_of[g.key]
                i = g.params.index(p) if p in g.params else -1
                a = n.args[i] if 0 <= i < len(n.args) else next((k.value for k in n.keywords if k.arg == p), None)
                ok = a is not None and any(isinstance(x, ast.Name) and x.id == s for x in ast.walk(a))
                out.append((f, n, ok, f"`{norm(n)[:60]}` passes `{norm(a) if a is not None else 'nothing'}` as the scope stack of {g.name}, not the caller's `{s}`"))
            elif g.key in fresh:
                out.append((f, n, False, f"`{norm(n)[:60]}` {fresh[g.key]} while the enclosing scopes are at hand in `{s}`"))
    return out


# ----------------------------------------------------------------------------------------------------------------- S16
def identity_keyed_positions(repo, modules: set[str]):
    """Shared rule S16: [(function, node, key variable, sibling, ok)] for every table keyed by `id(<loop variable>)`: the value stored
    under the key depends on the object alone (a fresh lock, a property of the object) - never on a *position sibling* of the same
    iteration (the other elements of a `zip`, the index of an `enumerate`): a sequence may hold one object at two positions (tied
    weights), and a table keyed by identity keeps the data of the last position only."""
    out = []
    for m in repo.pkg_modules():
        if m.name not in modules:
            continue
        for f in m.all_funcs:
            if isinstance(f.node, ast.Lambda):
                continue
            for n in own_nodes(f.node):
                key = val = None
                gens = []
                if isinstance(n, ast.DictComp):
                    key, val, gens = n.key, n.value, [(g.target, g.iter) for g in n.generators]
                elif isinstance(n, ast.Assign) and len(n.targets) == 1 and isinstance(n.targets[0], ast.Subscript):
                    key, val = n.targets[0].slice, n.value
                    p_ = getattr(n, "_parent", None)
                    while p_ is not None and p_ is not f.node:
                        if isinstance(p_, ast.For):
                            gens.append((p_.target, p_.iter))
                        p_ = getattr(p_, "_parent", None)
                if isinstance(key, ast.Name):
                    # `k = id(x)` bound once in the function, then `table[k] = …`
                    binds = [a.value for a in own_nodes(f.node) if isinstance(a, ast.Assign) and any(isinstance(t, ast.Name) and t.id == key.id for t in a.targets)]
                    if len(binds) == 1:
                        key = binds[0]
                if not (isinstance(key, ast.Call) and dotted_of(key.func) == "id" and len(key.args) == 1 and isinstance(key.args[0], ast.Name)) or not gens:
                    continue
                kv = key.args[0].id
                siblings = set()
                for tgt, it in gens:
                    names = [x.id for x in ast.walk(tgt) if isinstance(x, ast.Name)]
                    if kv in names and len(names) > 1:
                        siblings |= set(names) - {kv}
                used = {x.id for x in ast.walk(val) if isinstance(x, ast.Name)} & siblings
                # … nor on what the loop carries from one position to the next (a running offset, a counter): names of the loop body
                # whose value depends on themselves, directly or through other names assigned in the body
                lp = getattr(n, "_parent", None)
                while lp is not None and not isinstance(lp, ast.For):
                    lp = getattr(lp, "_parent", None) if lp is not f.node else None
                if isinstance(lp, ast.For) and not isinstance(n, ast.DictComp):
                    deps: dict[str, set] = {}
                    for a in ast.walk(lp):
                        tg = a.targets if isinstance(a, ast.Assign) else [a.target] if isinstance(a, (ast.AugAssign, ast.AnnAssign)) and getattr(a, "value", None) is not None else []
                        for t in tg:
                            for y in ast.walk(t):
                                if isinstance(y, ast.Name) and isinstance(y.ctx, ast.Store):
                                    ds = {z.id for z in ast.walk(a.value) if isinstance(z, ast.Name)}
                                    if isinstance(a, ast.AugAssign):
                                        ds.add(y.id)
                                    deps.setdefault(y.id, set()).update(ds)

                    def closure(names):
                        seen, work = set(), list(names)
                        while work:
                            x = work.pop()
                            for d in deps.get(x, ()):
                                if d not in seen:
                                    seen.add(d)
                                    work.append(d)
                        return seen

                    carried = {x for x in deps if x in closure([x])}
                    vnames = {x.id for x in ast.walk(val) if isinstance(x, ast.Name)}
                    used |= (vnames | closure(vnames)) & carried
                out.append((f, n, kv, sorted(used), not used))
    return out


# ----------------------------------------------------------------------------------------------------------------- S17
def loop_variable_after_loop(f: FuncInfo):
    """Shared rule S17: [(loop, name, use)] - the target of a `for` loop is read by a statement that follows the loop in the same
    block, with no rebinding in between: after the loop the name holds the LAST element only (or is unbound for an empty
    sequence), so what was meant for every element (detach, drop, unregister) is done for one."""
    out = []
    if isinstance(f.node, ast.Lambda):
        return out
    for lp in (x for x in own_nodes(f.node) if isinstance(x, ast.For)):
        names = {x.id for x in ast.walk(lp.target) if isinstance(x, ast.Name)}
        # … and the flags the body resets at the start of every iteration (`changed = False` as a statement of the loop body): after
        # the loop they say what the LAST iteration found, not whether any did
        resets = {st.targets[0].id: st.value.value for st in lp.body if isinstance(st, ast.Assign) and len(st.targets) == 1 and isinstance(st.targets[0], ast.Name)
                  and isinstance(st.value, ast.Constant) and isinstance(st.value.value, bool)}
        for nm, v0 in resets.items():
            # reset to one truth value at the top of the body, set to the other somewhere inside it
            if any(isinstance(a, ast.Assign) and any(isinstance(t, ast.Name) and t.id == nm for t in a.targets) and isinstance(a.value, ast.Constant)
                   and isinstance(a.value.value, bool) and a.value.value is not v0 for st in lp.body for a in ast.walk(st)):
                names.add(nm)
        blk = getattr(lp, "_parent", None)
        for fld in ("body", "orelse", "finalbody"):
            b = getattr(blk, fld, None)
            if not (isinstance(b, list) and any(lp is st for st in b)):
                continue
            live = set(names)
            for st in b[next(i for i, st in enumerate(b) if st is lp) + 1:]:
                if not live:
                    break
                # a statement that rebinds the name first (assignment, another loop over it) ends its life
                # a statement that binds the name itself (assignment, loop or comprehension target) reads its own binding
                stored = {x.id for x in ast.walk(st) if isinstance(x, ast.Name) and isinstance(x.ctx, ast.Store)}
                for x in ast.walk(st):
                    if isinstance(x, ast.Name) and x.id in live and x.id not in stored and isinstance(x.ctx, ast.Load):
                        out.append((lp, x.id, x))
                        live.discard(x.id)
                live -= stored
    return out


def rule_s17(ctx, rid: str, in_scope, consequence: str, floor: int = 10):
    """Report S17 under rule `rid` for the functions `in_scope(f)` selects."""
    n = 0
    for f in ctx.repo.all_funcs():
        if isinstance(f.node, ast.Lambda) or not in_scope(f):
            continue
        loops = sum(1 for x in own_nodes(f.node) if isinstance(x, ast.For))
        n += loops
        for lp, name, use in loop_variable_after_loop(f):
            st = use
            while st is not None and not isinstance(st, ast.stmt):
                st = getattr(st, "_parent", None)
            ctx.check(rid, f"S17 {f.local}: `{name}` is not used after the loop that binds it", False, f, st if st is not None else use,
                      f"`{norm(st)[:70] if st is not None else name}` follows the loop `for {norm(lp.target)} in {norm(lp.iter)[:40]}` and reads its variable: it runs once, for the last element "
                      f"(and fails for an empty sequence) - {consequence}",
                      how="reads of a for-loop target in the statements that follow the loop in the same block, before any rebinding",
                      construct=f"loop variable {name} used after its loop in {f.local}")
    for _ in range(n):
        ctx.counts[rid] = ctx.counts.get(rid, 0) + 1
    ctx.ob(rid, f"{n} loops examined: no loop variable is read after its loop", True, nontrivial=False, how="shared rule S17")
    ctx.require(n >= floor, f"{rid}: only {n} loops in scope of the loop-variable rule")


# ----------------------------------------------------------------------------------------------------------------- S18
def ref_attr_guards(f: FuncInfo):
    """Shared rule S18: [(dispatch node, guarded)] - in a function that dispatches on `attr.type == AttributeType.GRAPH / GRAPHS` and
    then reads `attr.value` / `attr.as_graph()` / `attr.as_graphs()` (a reference attribute has no value: iterating None or the typed
    accessor raises TypeError), every dispatch is reached only for attributes that are not
    references: an `is_ref()` test that leaves the iteration (`continue`) or encloses the dispatch precedes it."""
    out = []
    # a table-driven dispatch (`get = TABLE.get(attr.type)` with TABLE keyed by GRAPH / GRAPHS) is a dispatch as well: the statement
    # of the lookup stands for the branch
    table_sites = []
    for n in own_nodes(f.node):
        if isinstance(n, ast.Call) and isinstance(n.func, ast.Attribute) and n.func.attr == "get" and isinstance(n.func.value, ast.Name) and n.args \
                and isinstance(n.args[0], ast.Attribute) and n.args[0].attr == "type":
            d = f.module.assigns.get(n.func.value.id)
            if isinstance(d, ast.Dict) and {_attr_type_const(k_) for k_ in d.keys if k_ is not None} & {"GRAPH", "GRAPHS"}:
                st = n
                while getattr(st, "_parent", None) is not None and not isinstance(st, ast.stmt):
                    st = st._parent
                table_sites.append(st)
    for n in list(own_nodes(f.node)):
        if n in table_sites:
            k = ("in", {"GRAPH", "GRAPHS"})
        elif not isinstance(n, ast.If):
            continue
        else:
            k = _test_kind(n.test)
            if not k or not any(isinstance(x, ast.Attribute) and x.attr in ("value", "as_graph", "as_graphs") for st in n.body for x in ast.walk(st)):
                continue
        p = getattr(n, "_parent", None)
        if isinstance(p, ast.If) and p.orelse == [n] and _test_kind(p.test):
            continue  # an elif of a chain that was counted at its head
        guarded = False
        child, p_ = n, getattr(n, "_parent", None)
        while p_ is not None and not guarded:
            if isinstance(p_, ast.If) and any(isinstance(x, ast.Call) and isinstance(x.func, ast.Attribute) and x.func.attr == "is_ref" for x in ast.walk(p_.test)):
                guarded = True
            for fld in ("body", "orelse"):
                b = getattr(p_, fld, None)
                if isinstance(b, list) and any(child is st for st in b):
                    for st in b[: next(i for i, y in enumerate(b) if y is child)]:
                        if isinstance(st, ast.If) and any(isinstance(y, (ast.Continue, ast.Return, ast.Raise)) for y in st.body) \
                                and any(isinstance(x, ast.Call) and isinstance(x.func, ast.Attribute) and x.func.attr == "is_ref" for x in ast.walk(st.test)):
                            guarded = True
            if p_ is f.node:
                break
            child, p_ = p_, getattr(p_, "_parent", None)
        out.append((n, guarded))
    return out



def rule_s18(ctx, rule: str, in_scope, consequence: str, floor: int = 1):
    """S18 over the functions of the modules selected by `in_scope(module name)`."""
    n = 0
    for m in ctx.repo.pkg_modules():
        if m.name.endswith("_test") or not in_scope(m.name):
            continue
        for f in ctx.repo.live(m.all_funcs):
            if isinstance(f.node, ast.Lambda):
                continue
            for node, guarded in ref_attr_guards(f):
                n += 1
                ctx.check(rule, f"S18 {f.local}: the graph-attribute dispatch is not reached for reference attributes", guarded, f, node,
                          f"`{norm(node.test)[:60]}` holds for a reference attribute of graph type as well (`RefAttr(name, ref, AttributeType.GRAPH)` in a function body whose "
                          f"control-flow node takes its branches from attribute parameters), which has no value: reading it (`.value` iterated, `.as_graph()`, `.as_graphs()`) "
                          f"raises TypeError - {consequence}",
                          how="an is_ref() test that continues / returns / encloses precedes every `attr.type == GRAPH(S)` dispatch that reads the attribute's value",
                          construct=f"reference attributes reach the graph dispatch of {f.local}")
    ctx.require(n >= floor, f"only {n} graph-attribute dispatches found")

# ---------------------------------------------------------------------------------------------------------------------- S19
_BYTE_NAME = __import__("re").compile(r"(bytes|length|offset|budget|_SIZE$)", __import__("re").I)


def _unit_of(e) -> str | None:
    """'B' for a byte quantity, 'E' for an element count, None when the expression says nothing (or converts units itself)."""
    if isinstance(e, ast.Attribute):
        if e.attr in ("nbytes", "length", "offset"):
            return "B"
        if e.attr in ("size", "numel"):
            return "E"
        if _BYTE_NAME.search(e.attr):
            return "B"
        return None
    if isinstance(e, ast.Name):
        return "B" if _BYTE_NAME.search(e.id) else None
    if isinstance(e, ast.Call):
        d = dotted_of(e.func) or ""
        if d in ("math.prod", "np.prod", "numpy.prod"):
            return "E"
        if d in ("min", "max") and e.args:
            us = {_unit_of(a) for a in e.args} - {None}
            return us.pop() if len(us) == 1 else None
        return None
    if isinstance(e, ast.BinOp) and isinstance(e.op, (ast.Add, ast.Sub)):
        us = {_unit_of(e.left), _unit_of(e.right)} - {None}
        return us.pop() if len(us) == 1 else None
    return None  # products, quotients, subscripts, literals: unit conversions or unknown


def unit_mismatches(f: FuncInfo):
    """Shared rule S19: [(node, byte operand, element operand)] - a byte quantity (`.nbytes`, a recorded length / offset, a budget or
    a *_SIZE constant) and an element count (`.size`, math.prod(shape)) meet as the operands of min / max / + / - / a comparison
    without a conversion (a product with the item size) on the way."""
    out = []
    f._s19_examined = 0
    for n in own_nodes(f.node):
        ops = None
        if isinstance(n, ast.Call) and dotted_of(n.func) in ("min", "max") and len(n.args) >= 2 and not any(isinstance(a, ast.Starred) for a in n.args):
            ops = list(n.args)
        elif isinstance(n, ast.BinOp) and isinstance(n.op, (ast.Add, ast.Sub)):
            ops = [n.left, n.right]
        elif isinstance(n, ast.Compare) and len(n.ops) == 1 and isinstance(n.ops[0], (ast.Lt, ast.LtE, ast.Gt, ast.GtE, ast.Eq, ast.NotEq)):
            ops = [n.left, n.comparators[0]]
        if not ops:
            continue
        units = [(_unit_of(o), o) for o in ops]
        if any(u for u, _ in units):
            f._s19_examined += 1
        b = next((o for u, o in units if u == "B"), None)
        e = next((o for u, o in units if u == "E"), None)
        if b is not None and e is not None:
            out.append((n, b, e))
    return out


# ---------------------------------------------------------------------------------------------------------------------- S20
def stale_snapshot_updates(f: FuncInfo):
    """Shared rule S20: [(loop, assignment, snapshot name, attribute text)] - inside a loop, `<x>.A = <expr built from S>` where S is a local
    bound before the loop to `<x>.A` (a snapshot of the attribute) and never rebound in the loop: every iteration starts again from the
    state before the loop, so the update of an earlier iteration is overwritten by the next one and only the last survives."""
    out = []
    if isinstance(f.node, ast.Lambda):
        return out
    f._s20_examined = 0
    binds: dict[str, list] = {}
    for a in own_nodes(f.node):
        tg = a.targets if isinstance(a, ast.Assign) else [a.target] if isinstance(a, (ast.AnnAssign, ast.AugAssign, ast.NamedExpr)) and getattr(a, "value", None) is not None else []
        for t in tg:
            if isinstance(t, ast.Name):
                binds.setdefault(t.id, []).append(a)
    for lp in (x for x in own_nodes(f.node) if isinstance(x, (ast.For, ast.While))):
        inside = {id(y) for y in ast.walk(lp)}
        for a in (y for y in ast.walk(lp) if isinstance(y, ast.Assign) and len(y.targets) == 1 and isinstance(y.targets[0], ast.Attribute)):
            f._s20_examined += 1
            attr = norm(a.targets[0])
            for nm in {y.id for y in ast.walk(a.value) if isinstance(y, ast.Name)}:
                bs = binds.get(nm, [])
                if not bs or any(id(b) in inside for b in bs):
                    continue  # rebound in the loop: refreshed
                if not all(norm(getattr(b, "value", None)) in (attr, f"tuple({attr})", f"list({attr})") for b in bs if getattr(b, "value", None) is not None):
                    continue
                # the assignment can run in more than one iteration (no break / return follows it in its block)
                blk_owner = getattr(a, "_parent", None)
                blk = next((getattr(blk_owner, fld) for fld in ("body", "orelse") if isinstance(getattr(blk_owner, fld, None), list) and a in getattr(blk_owner, fld)), [])
                after = blk[blk.index(a) + 1:] if a in blk else []
                if any(isinstance(y, (ast.Break, ast.Return)) for st in after for y in ast.walk(st)):
                    continue
                out.append((lp, a, nm, attr))
    return out


# ---------------------------------------------------------------------------------------------------------------------- S21
def misplaced_named_arguments(repo, typer, in_scope):
    """Shared rule S21: [(function, call, argument, parameter it lands in, callee)] - a positional argument that is a plain name
    equal to the name of one of the callee's parameters lands in a *different* parameter: `Attr(name, type, value, doc_string)`
    where the fourth positional parameter is `ref_attr_name` and `doc_string` is keyword-only.  Also returns the number of
    positional arguments examined."""
    out, n = [], 0
    for m in repo.pkg_modules():
        if m.name.endswith("_test") or not in_scope(m.name):
            continue
        for f in m.all_funcs:
            if isinstance(f.node, ast.Lambda):
                continue
            for c in own_nodes(f.node):
                if not isinstance(c, ast.Call) or not c.args:
                    continue
                try:
                    hits, _ = typer.callees(f, c, False)
                except Exception:
                    continue
                if len(hits) != 1:
                    continue
                g = hits[0]
                if isinstance(g.node, ast.Lambda) or g.module.external:
                    continue
                a = g.node.args
                pos = [x.arg for x in a.posonlyargs + a.args]
                off = 1 if (g.cls is not None and g.kind not in ("staticmethod",) and (isinstance(c.func, ast.Attribute) or g.name == "__init__")) else 0
                allp = set(pos) | {x.arg for x in a.kwonlyargs}
                for i, arg in enumerate(c.args):
                    if isinstance(arg, ast.Starred):
                        break
                    n += 1
                    pi = i + off
                    if pi >= len(pos):
                        continue
                    if isinstance(arg, ast.Name) and arg.id in allp and arg.id != pos[pi] and arg.id not in ("self", "cls") and pos[pi] not in ("self", "cls"):
                        out.append((f, c, arg.id, pos[pi], g))
    return out, n
