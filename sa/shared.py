"""Shared rule S1 — GRAPH / GRAPHS sibling agreement (serves C05, C07, C11, C12, C13, C18)."""

from __future__ import annotations

import ast

from .index import FuncInfo, dotted_of, norm, own_nodes

_IGNORED_CALLS = {"reversed", "iter", "list", "tuple", "isinstance", "len", "enumerate", "zip", "as_graphs", "as_graph",
                  # building the collection of per-graph results in the GRAPHS branch
                  "add", "append", "extend"}
# sites that test an attribute's type for reasons other than visiting its graphs (one reason each)
S1_EXEMPT = {
    "onnx_ir._core:Attr.__init__": "normalises sequence-valued attributes to tuples; GRAPH is scalar-valued",
    "onnx_ir._core:Attr.__str__": "display only: indents a single graph's text",
}


def _attr_type_const(e) -> str | None:
    d = dotted_of(e) or ""
    if d.endswith("AttributeType.GRAPH"):
        return "GRAPH"
    if d.endswith("AttributeType.GRAPHS"):
        return "GRAPHS"
    return None


def _test_kind(test: ast.AST):
    """('eq', 'GRAPH'|'GRAPHS') / ('in', {…}) / None for a test on an attribute's type."""
    for t in ast.walk(test):
        if isinstance(t, ast.Compare) and len(t.ops) == 1:
            c = t.comparators[0]
            if isinstance(t.ops[0], (ast.Eq, ast.Is)) and _attr_type_const(c):
                return ("eq", _attr_type_const(c), t)
            if isinstance(t.ops[0], ast.In) and isinstance(c, (ast.Tuple, ast.Set, ast.List)):
                ks = {_attr_type_const(x) for x in c.elts} - {None}
                if ks:
                    return ("in", ks, t)
    return None


def _callee_names(stmts) -> set[str]:
    out = set()
    for s in stmts:
        for n in ast.walk(s):
            if isinstance(n, ast.Call):
                f = n.func
                name = f.attr if isinstance(f, ast.Attribute) else (f.id if isinstance(f, ast.Name) else None)
                if name and name.startswith("Attr") and name.endswith("s"):
                    name = name[:-1]  # AttrGraphs ~ AttrGraph (sequence constructor of the same kind)
                if name and name not in _IGNORED_CALLS:
                    out.add(name)
            elif isinstance(n, (ast.Yield, ast.YieldFrom)):
                out.add("<yield>")
    return out


def _effects(stmts) -> set[str]:
    """Callee names plus the kinds of statements with effects (stores into containers)."""
    out = _callee_names(stmts)
    for s in stmts:
        for n in ast.walk(s):
            if isinstance(n, ast.Assign) and isinstance(n.targets[0], ast.Subscript):
                out.add("<store[]>")
            elif isinstance(n, ast.AugAssign):
                out.add("<aug>")
    return out


def s1_sites(repo, modules: set[str] | None = None):
    """Yield (FuncInfo, node, ok, detail, label) for every GRAPH/GRAPHS dispatch site."""
    for f in repo.all_funcs():
        if modules is not None and f.module.name not in modules:
            continue
        if f.key in S1_EXEMPT:
            continue
        seen_ifs = set()
        for n in own_nodes(f.node):
            if isinstance(n, (ast.If, ast.IfExp)) or (isinstance(n, ast.Compare) and not isinstance(getattr(n, "_parent", None), (ast.If, ast.IfExp, ast.BoolOp))):
                test = n.test if isinstance(n, (ast.If, ast.IfExp)) else n
                k = _test_kind(test)
                if k is None:
                    continue
                if k[0] == "in":
                    ok = k[1] >= {"GRAPH", "GRAPHS"}
                    yield f, n, ok, f"membership test names {sorted(k[1])} only", f"membership {sorted(k[1])}"
                    continue
                if not isinstance(n, ast.If) or id(n) in seen_ifs:
                    continue
                # walk the if/elif chain from its head
                head = n
                p = getattr(head, "_parent", None)
                while isinstance(p, ast.If) and p.orelse == [head] and _test_kind(p.test):
                    head = p
                    p = getattr(head, "_parent", None)
                branches = {}
                cur = head
                while isinstance(cur, ast.If):
                    seen_ifs.add(id(cur))
                    kk = _test_kind(cur.test)
                    if kk and kk[0] == "eq":
                        branches[kk[1]] = cur
                    elif kk and kk[0] == "in":
                        for x in kk[1]:
                            branches[x] = cur
                    cur = cur.orelse[0] if len(cur.orelse) == 1 and isinstance(cur.orelse[0], ast.If) else None
                # consecutive sibling `if` statements in the same block also count
                blk = getattr(head, "_parent", None)
                for fld in ("body", "orelse"):
                    stmts = getattr(blk, fld, None)
                    if isinstance(stmts, list) and head in stmts:
                        for s in stmts:
                            if isinstance(s, ast.If) and s is not head:
                                kk = _test_kind(s.test)
                                if kk and kk[0] == "eq" and kk[1] not in branches:
                                    branches[kk[1]] = s
                                    seen_ifs.add(id(s))
                if "GRAPH" in branches and "GRAPHS" not in branches:
                    yield f, head, False, "GRAPH attributes are handled but GRAPHS attributes are not", "GRAPH without GRAPHS"
                elif "GRAPHS" in branches and "GRAPH" not in branches:
                    yield f, head, False, "GRAPHS attributes are handled but GRAPH attributes are not", "GRAPHS without GRAPH"
                elif "GRAPH" in branches:
                    a, b = _effects(branches["GRAPH"].body), _effects(branches["GRAPHS"].body)
                    ok = a == b
                    yield f, head, ok, f"GRAPH branch does {sorted(a)} but GRAPHS branch does {sorted(b)}", f"GRAPH {sorted(a)} / GRAPHS {sorted(b)}"
