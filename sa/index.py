"""E1 — source index: modules, classes, functions, imports, MRO.

Parses every non-test module under ``<repo>/src/onnx_ir`` (and the interpreter's own
``collections`` / ``_collections_abc`` sources for the UserList/UserDict base chains).
"""

from __future__ import annotations

import ast
import importlib.util
import os
from typing import Iterator


class AnalysisError(Exception):
    """The analyser cannot give a verdict (vanished anchor, unparseable file, floor)."""


PKG = "onnx_ir"


def dotted_of(expr: ast.AST) -> str | None:
    """``a.b.c`` for a Name/Attribute chain, else None."""
    parts = []
    while isinstance(expr, ast.Attribute):
        parts.append(expr.attr)
        expr = expr.value
    if isinstance(expr, ast.Name):
        parts.append(expr.id)
        return ".".join(reversed(parts))
    return None


def set_parents(tree: ast.AST) -> None:
    for node in ast.walk(tree):
        for child in ast.iter_child_nodes(node):
            child._parent = node  # type: ignore[attr-defined]


def norm(node: ast.AST) -> str:
    """Normalised text of a construct (line-number free key for findings)."""
    if isinstance(node, (ast.FunctionDef, ast.AsyncFunctionDef)):
        return f"def {node.name}(...)"
    if isinstance(node, ast.ClassDef):
        return f"class {node.name}"
    try:
        text = ast.unparse(node)
    except Exception:  # pragma: no cover
        text = type(node).__name__
    return " ".join(text.split())


def short(node_or_text) -> str:
    """Construct key form of a node: normalised text capped at 160 characters."""
    t = node_or_text if isinstance(node_or_text, str) else norm(node_or_text)
    return t if len(t) <= 160 else t[:157] + "..."


def text(node: ast.AST) -> str:
    """Full (untruncated) normalised source text of a node."""
    return " ".join(ast.unparse(node).split())


class FuncInfo:
    def __init__(self, module, node, name, cls=None, parent=None, kind="function"):
        self.module: Module = module
        self.node = node
        self.name: str = name
        self.cls: ClassInfo | None = cls
        self.parent: FuncInfo | None = parent
        self.kind: str = kind
        self.nested: dict[str, FuncInfo] = {}
        self.lambdas: list[FuncInfo] = []
        if parent is not None:
            local = f"{parent.local}.<locals>.{name}"
        elif cls is not None:
            suffix = {"setter": ".setter", "deleter": ".deleter"}.get(kind, "")
            local = f"{cls.name}.{name}{suffix}"
        else:
            local = name
        self.local = local
        self.key = f"{module.name}:{local}"

    @property
    def lineno(self) -> int:
        return getattr(self.node, "lineno", 0)

    @property
    def params(self) -> list[str]:
        a = self.node.args
        names = [x.arg for x in a.posonlyargs + a.args]
        if a.vararg:
            names.append(a.vararg.arg)
        names += [x.arg for x in a.kwonlyargs]
        if a.kwarg:
            names.append(a.kwarg.arg)
        return names

    @property
    def owner_class(self) -> "ClassInfo | None":
        """Class whose ``self`` is visible (own class, or enclosing function's)."""
        f = self
        while f is not None:
            if f.cls is not None:
                return f.cls
            f = f.parent
        return None

    @property
    def body(self) -> list[ast.stmt]:
        if isinstance(self.node, ast.Lambda):
            return [ast.Return(value=self.node.body)]
        return self.node.body

    def specialise(self, recv_cls: "ClassInfo") -> "FuncInfo":
        """A copy of this (stdlib mixin) method analysed with ``self`` typed as ``recv_cls``."""
        g = FuncInfo(self.module, self.node, self.name, cls=self.cls, parent=self.parent, kind=self.kind)
        g.self_cls = recv_cls
        g.key = f"{self.key}@{recv_cls.name}"
        g.nested = self.nested
        g.lambdas = self.lambdas
        return g

    @staticmethod
    def _trivial(s: ast.stmt) -> bool:
        """Statement without any effect outside the frame: docstring / `...`, pass, constant bound to a local."""
        if isinstance(s, ast.Expr) and isinstance(s.value, ast.Constant):
            return True
        if isinstance(s, ast.Pass):
            return True
        if isinstance(s, ast.Assign) and isinstance(s.value, ast.Constant) and all(isinstance(t, ast.Name) for t in s.targets):
            return True
        return False

    def is_abstract_stub(self) -> bool:
        """Body is only (docstring / trivial statements +) ``raise NotImplementedError``."""
        if isinstance(self.node, ast.Lambda):
            return False
        body = [s for s in self.node.body if not self._trivial(s)]
        if len(body) != 1 or not isinstance(body[0], ast.Raise):
            return False
        exc = body[0].exc
        if isinstance(exc, ast.Call):
            exc = exc.func
        return isinstance(exc, ast.Name) and exc.id == "NotImplementedError"

    def only_raises(self) -> bool:
        """Body is only (docstring / trivial statements +) a ``raise`` (disabled method stub)."""
        if isinstance(self.node, ast.Lambda):
            return False
        body = [s for s in self.node.body if not self._trivial(s)]
        return len(body) == 1 and isinstance(body[0], ast.Raise)

    def __repr__(self) -> str:
        return f"<Func {self.key}>"


class ClassInfo:
    def __init__(self, module, node: ast.ClassDef, external=False):
        self.module: Module = module
        self.node = node
        self.name = node.name
        self.key = f"{module.name}:{node.name}"
        self.external = external
        self.base_exprs = list(node.bases)
        self.bases: list = []  # ClassInfo | str (external dotted)
        self.methods: dict[str, FuncInfo] = {}
        self.props: dict[str, dict[str, FuncInfo]] = {}
        self.aliases: dict[str, ast.expr] = {}
        self.class_attrs: dict[str, ast.expr | None] = {}
        self.ann_fields: dict[str, ast.expr] = {}
        self.slots: tuple[str, ...] | None = None
        self.decorators = list(node.decorator_list)

    def is_frozen_dataclass(self) -> bool:
        for d in self.decorators:
            if isinstance(d, ast.Call) and (dotted_of(d.func) or "").endswith("dataclass"):
                for kw in d.keywords:
                    if (
                        kw.arg == "frozen"
                        and isinstance(kw.value, ast.Constant)
                        and kw.value.value is True
                    ):
                        return True
        return False

    def is_dataclass(self) -> bool:
        for d in self.decorators:
            f = d.func if isinstance(d, ast.Call) else d
            if (dotted_of(f) or "").endswith("dataclass"):
                return True
        return False

    def __repr__(self) -> str:
        return f"<Class {self.key}>"


class Module:
    def __init__(self, name: str, path: str, external=False):
        self.name = name
        self.path = path
        self.external = external
        with open(path, encoding="utf-8") as f:
            self.src = f.read()
        try:
            self.tree = ast.parse(self.src, filename=path)
        except SyntaxError as e:
            raise AnalysisError(f"cannot parse {path}: {e}") from e
        _inline_return_temporaries(self.tree)
        set_parents(self.tree)
        self.imports: dict[str, str] = {}
        self.classes: dict[str, ClassInfo] = {}
        self.functions: dict[str, FuncInfo] = {}
        self.assigns: dict[str, ast.expr] = {}
        self.all_funcs: list[FuncInfo] = []
        self.is_package = os.path.basename(path) == "__init__.py"

    def __repr__(self) -> str:
        return f"<Module {self.name}>"


def _decorator_kind(fn: ast.FunctionDef) -> str:
    kind = "method"
    for d in fn.decorator_list:
        name = dotted_of(d) or ""
        if name == "property" or name.endswith(".cached_property") or name == "cached_property":
            kind = "getter"
        elif name.endswith(".setter"):
            kind = "setter"
        elif name.endswith(".deleter"):
            kind = "deleter"
        elif name == "staticmethod":
            kind = "staticmethod"
        elif name == "classmethod":
            kind = "classmethod"
        elif name.endswith("overload"):
            kind = "overload"
    return kind


def _inline_return_temporaries(tree: ast.AST) -> None:
    """Normal form of the analysed tree: `t = <expr>; return t` (the return immediately follows the assignment, so
    nothing can read t afterwards) is read as `return <expr>`.  The rules then see the same thing whether or not a returned expression was first bound to a local
    (extract-variable / inline-variable refactorings do not change a verdict)."""
    for fn in [n for n in ast.walk(tree) if isinstance(n, (ast.FunctionDef, ast.AsyncFunctionDef))]:
        counts: dict[str, int] = {}
        for x in ast.walk(fn):
            if isinstance(x, ast.Name):
                counts[x.id] = counts.get(x.id, 0) + 1
        for node in ast.walk(fn):
            for fld in ("body", "orelse", "finalbody"):
                blk = getattr(node, fld, None)
                if not (isinstance(blk, list) and len(blk) >= 2):
                    continue
                i = 0
                while i + 1 < len(blk):
                    a, r = blk[i], blk[i + 1]
                    if isinstance(a, ast.Assign) and len(a.targets) == 1 and isinstance(a.targets[0], ast.Name) and isinstance(r, ast.Return) \
                            and isinstance(r.value, ast.Name) and r.value.id == a.targets[0].id:
                        new_r = ast.copy_location(ast.Return(value=a.value), r)
                        blk[i : i + 2] = [new_r]
                    else:
                        i += 1


class Repo:
    """Index of the package under ``root/src/onnx_ir``."""

    STDLIB = ("collections", "_collections_abc")

    def __init__(self, root: str = "/repo", expand: bool = True):
        self.root = root
        self.expansion: dict = {}
        self.src_root = os.path.join(root, "src")
        pkg_dir = os.path.join(self.src_root, PKG)
        if not os.path.isdir(pkg_dir):
            raise AnalysisError(f"package directory {pkg_dir} not found")
        self.modules: dict[str, Module] = {}
        for dirpath, dirnames, filenames in os.walk(pkg_dir):
            dirnames[:] = sorted(d for d in dirnames if d not in ("_thirdparty", "__pycache__"))
            for fn in sorted(filenames):
                if not fn.endswith(".py") or fn.endswith("_test.py"):
                    continue
                path = os.path.join(dirpath, fn)
                rel = os.path.relpath(path, self.src_root)[:-3].replace(os.sep, ".")
                if rel.endswith(".__init__"):
                    rel = rel[: -len(".__init__")]
                self.modules[rel] = Module(rel, path)
        for name in self.STDLIB:
            spec = importlib.util.find_spec(name)
            origin = spec.origin if spec is not None else None
            if not origin or not origin.endswith(".py"):
                # frozen stdlib module: its source still ships in Lib/
                libdir = os.path.dirname(os.__file__)
                for cand in (
                    os.path.join(libdir, name + ".py"),
                    os.path.join(libdir, name, "__init__.py"),
                ):
                    if os.path.isfile(cand):
                        origin = cand
                        break
            if not origin or not origin.endswith(".py") or not os.path.isfile(origin):
                raise AnalysisError(f"stdlib source for {name} not found")
            self.modules[name] = Module(name, origin, external=True)
        if expand and os.environ.get("VERIF_NO_EXPAND") != "1":
            # normal form E1b: private helpers the analyser has no name for are expanded at their call sites (sa/inline.py);
            # resolution needs an index, so one is built without the pass, its trees are rewritten and indexed again here
            from .inline import expand_helpers

            pre = Repo(root, expand=False)
            self.expansion = expand_helpers(pre)
            for name, m in self.modules.items():
                if not m.external:
                    m.tree = pre.modules[name].tree
                    _inline_return_temporaries(m.tree)
                    set_parents(m.tree)
        for m in self.modules.values():
            self._index_module(m)
        for m in self.modules.values():
            for c in m.classes.values():
                c.bases = [self._resolve_base(m, b) for b in c.base_exprs]
        self._mro_cache: dict[str, list] = {}
        self._sub_cache: dict[str, list[ClassInfo]] | None = None

    # ------------------------------------------------------------------ indexing
    def _index_module(self, m: Module) -> None:
        for node in ast.walk(m.tree):
            if isinstance(node, ast.Import):
                for a in node.names:
                    if a.asname:
                        m.imports[a.asname] = a.name
                    else:
                        m.imports[a.name.split(".")[0]] = a.name.split(".")[0]
            elif isinstance(node, ast.ImportFrom):
                base = node.module or ""
                if node.level:
                    pkg = m.name if m.is_package else m.name.rpartition(".")[0]
                    for _ in range(node.level - 1):
                        pkg = pkg.rpartition(".")[0]
                    base = f"{pkg}.{base}" if base else pkg
                for a in node.names:
                    if a.name == "*":
                        continue
                    m.imports[a.asname or a.name] = f"{base}.{a.name}"
        for stmt in m.tree.body:
            self._index_stmt(m, stmt)
        # defs nested in module-level ``if``/``try`` blocks are module-level defs too
        def nested_defs(stmts):
            for s in stmts:
                if isinstance(s, ast.If):
                    yield from nested_defs(s.body)
                    yield from nested_defs(s.orelse)
                elif isinstance(s, ast.Try):
                    yield from nested_defs(s.body)
                    for h in s.handlers:
                        yield from nested_defs(h.body)
                    yield from nested_defs(s.orelse)
                    yield from nested_defs(s.finalbody)
                elif isinstance(s, (ast.ClassDef, ast.FunctionDef, ast.AsyncFunctionDef)):
                    yield s

        for stmt in m.tree.body:
            if isinstance(stmt, (ast.If, ast.Try)):
                for sub in nested_defs([stmt]):
                    if sub.name not in m.classes and sub.name not in m.functions:
                        self._index_stmt(m, sub)

    def _index_stmt(self, m: Module, stmt: ast.stmt) -> None:
        if isinstance(stmt, ast.ClassDef):
            self._index_class(m, stmt)
        elif isinstance(stmt, (ast.FunctionDef, ast.AsyncFunctionDef)):
            kind = _decorator_kind(stmt)
            if kind == "overload":
                return
            f = FuncInfo(m, stmt, stmt.name, kind="function")
            m.functions[stmt.name] = f
            self._index_nested(m, f)
        elif isinstance(stmt, ast.Assign):
            for t in stmt.targets:
                if isinstance(t, ast.Name):
                    m.assigns[t.id] = stmt.value
        elif isinstance(stmt, ast.AnnAssign) and isinstance(stmt.target, ast.Name):
            if stmt.value is not None:
                m.assigns[stmt.target.id] = stmt.value

    def _index_class(self, m: Module, node: ast.ClassDef) -> None:
        c = ClassInfo(m, node, external=m.external)
        m.classes[node.name] = c
        for stmt in node.body:
            if isinstance(stmt, (ast.FunctionDef, ast.AsyncFunctionDef)):
                kind = _decorator_kind(stmt)
                if kind == "overload":
                    continue
                f = FuncInfo(m, stmt, stmt.name, cls=c, kind=kind)
                if kind == "getter":
                    c.props.setdefault(stmt.name, {})["get"] = f
                elif kind == "setter":
                    c.props.setdefault(stmt.name, {})["set"] = f
                elif kind == "deleter":
                    c.props.setdefault(stmt.name, {})["del"] = f
                else:
                    c.methods[stmt.name] = f
                self._index_nested(m, f)
            elif isinstance(stmt, ast.Assign):
                for t in stmt.targets:
                    if isinstance(t, ast.Name):
                        c.class_attrs[t.id] = stmt.value
                        if t.id == "__slots__":
                            try:
                                val = ast.literal_eval(stmt.value)
                                c.slots = (val,) if isinstance(val, str) else tuple(val)
                            except Exception:
                                c.slots = None
                        elif isinstance(stmt.value, ast.Name):
                            c.aliases[t.id] = stmt.value
            elif isinstance(stmt, ast.AnnAssign) and isinstance(stmt.target, ast.Name):
                c.class_attrs[stmt.target.id] = stmt.value
                c.ann_fields[stmt.target.id] = stmt.annotation

    def _index_nested(self, m: Module, f: FuncInfo) -> None:
        m.all_funcs.append(f)
        lam_count = 0

        def visit(node: ast.AST) -> None:
            nonlocal lam_count
            for child in ast.iter_child_nodes(node):
                if isinstance(child, (ast.FunctionDef, ast.AsyncFunctionDef)):
                    g = FuncInfo(m, child, child.name, parent=f, kind="nested")
                    f.nested[child.name] = g
                    self._index_nested(m, g)
                elif isinstance(child, ast.Lambda):
                    lam_count += 1
                    g = FuncInfo(m, child, f"<lambda#{lam_count}>", parent=f, kind="lambda")
                    f.lambdas.append(g)
                    child._funcinfo = g  # type: ignore[attr-defined]
                    self._index_nested(m, g)
                elif isinstance(child, ast.ClassDef):
                    continue
                else:
                    visit(child)

        if isinstance(f.node, ast.Lambda):
            visit(f.node)
        else:
            for stmt in f.node.body:
                if isinstance(stmt, (ast.FunctionDef, ast.AsyncFunctionDef)):
                    g = FuncInfo(m, stmt, stmt.name, parent=f, kind="nested")
                    f.nested[stmt.name] = g
                    self._index_nested(m, g)
                else:
                    visit(stmt)
            # defaults / decorators may hold lambdas
            for d in f.node.args.defaults + [x for x in f.node.args.kw_defaults if x]:
                visit(ast.Expr(value=d))

    # ---------------------------------------------------------------- resolution
    def _resolve_base(self, m: Module, expr: ast.expr):
        if isinstance(expr, ast.Subscript):  # Generic[...] / UserList["X"]
            expr = expr.value
        d = dotted_of(expr)
        if d is None:
            return "?"
        obj = self.resolve_dotted_in(m, d)
        if isinstance(obj, ClassInfo):
            return obj
        return self.expand_dotted(m, d)

    def expand_dotted(self, m: Module, d: str) -> str:
        """Expand the leading alias of a dotted name through the module's imports."""
        head, _, rest = d.partition(".")
        if head in m.imports:
            full = m.imports[head]
            return f"{full}.{rest}" if rest else full
        if head in m.classes or head in m.functions or head in m.assigns:
            return f"{m.name}.{d}"
        return d

    def resolve_global(self, full: str, _depth=0):
        """Resolve a fully-qualified dotted name to Module / ClassInfo / FuncInfo /
        ('attr', Module, name) / ('ext', dotted)."""
        if _depth > 8:
            return ("ext", full)
        parts = full.split(".")
        # longest module prefix
        for i in range(len(parts), 0, -1):
            modname = ".".join(parts[:i])
            if modname in self.modules:
                obj: object = self.modules[modname]
                rest = parts[i:]
                break
        else:
            return ("ext", full)
        for j, p in enumerate(rest):
            if isinstance(obj, Module):
                if p in obj.classes:
                    obj = obj.classes[p]
                elif p in obj.functions:
                    obj = obj.functions[p]
                elif p in obj.imports:
                    target = obj.imports[p]
                    tail = rest[j + 1 :]
                    return self.resolve_global(".".join([target, *tail]), _depth + 1)
                elif p in obj.assigns:
                    if j == len(rest) - 1:
                        return ("attr", obj, p)
                    return ("ext", full)
                else:
                    return ("ext", full)
            elif isinstance(obj, ClassInfo):
                hit = self.lookup(obj, p)
                if hit is None:
                    return ("classattr", obj, p)
                obj = hit
            else:
                return ("ext", full)
        return obj

    def resolve_dotted_in(self, m: Module, d: str):
        return self.resolve_global(self.expand_dotted(m, d))

    # ----------------------------------------------------------------- hierarchy
    def mro(self, c: ClassInfo) -> list:
        """Linearised bases (ClassInfo for indexed classes, str for external)."""
        if c.key in self._mro_cache:
            return self._mro_cache[c.key]
        self._mro_cache[c.key] = [c]  # cycle guard
        seqs = []
        for b in c.bases:
            if isinstance(b, ClassInfo):
                seqs.append(list(self.mro(b)))
            else:
                seqs.append([b])
        seqs.append(list(c.bases))
        result = [c]
        seqs = [s for s in seqs if s]
        while seqs:
            for s in seqs:
                cand = s[0]
                if not any(_in_tail(cand, t) for t in seqs):
                    break
            else:  # inconsistent; fall back to DFS order
                cand = seqs[0][0]
            result.append(cand)
            seqs = [[x for x in s if not _same(x, cand)] for s in seqs]
            seqs = [s for s in seqs if s]
        self._mro_cache[c.key] = result
        return result

    def lookup(self, c: ClassInfo, name: str, after: ClassInfo | None = None):
        """First definition of ``name`` in the MRO of ``c`` (optionally after a class).

        Returns FuncInfo (method), dict (property), ('alias', ClassInfo, expr) or None.
        """
        started = after is None
        for k in self.mro(c):
            if not started:
                if isinstance(k, ClassInfo) and k is after:
                    started = True
                continue
            if not isinstance(k, ClassInfo):
                continue
            if name in k.methods:
                return k.methods[name]
            if name in k.props:
                return k.props[name]
            if name in k.aliases:
                target = k.aliases[name]
                if isinstance(target, ast.Name) and target.id in k.methods:
                    return k.methods[target.id]
                return ("alias", k, target)
            if name in k.class_attrs:
                return ("classattr", k, name)
        return None

    def subclasses(self, c: ClassInfo) -> list[ClassInfo]:
        if self._sub_cache is None:
            self._sub_cache = {}
            for m in self.modules.values():
                for k in m.classes.values():
                    for b in self.mro(k)[1:]:
                        if isinstance(b, ClassInfo):
                            self._sub_cache.setdefault(b.key, []).append(k)
        return self._sub_cache.get(c.key, [])

    def is_subclass(self, c: ClassInfo, base: ClassInfo) -> bool:
        return any(k is base for k in self.mro(c))

    # ------------------------------------------------------------------- access
    def module(self, name: str) -> Module:
        if name not in self.modules:
            raise AnalysisError(f"anchor module {name} not found")
        return self.modules[name]

    def cls(self, key: str) -> ClassInfo:
        mod, _, name = key.partition(":")
        m = self.module(mod)
        if name not in m.classes:
            raise AnalysisError(f"anchor class {key} not found")
        return m.classes[name]

    def func(self, key: str) -> FuncInfo:
        f = self.find_func(key)
        if f is None:
            raise AnalysisError(f"anchor function {key} not found")
        return f

    def expanded_into(self, f: FuncInfo) -> set[str]:
        """Keys of the private helpers whose bodies the normal form (sa/inline.py) expanded into f."""
        return set(self.expansion.get("into", {}).get(f.key, ()))

    def transparent_callers(self, f: FuncInfo) -> set[str] | None:
        """If f is a transparent helper all of whose calls were expanded (sa/inline.py): the keys of the functions its body
        now is a part of.  None otherwise (f is a function in its own right)."""
        if f.key in self.expansion.get("still_called", ()):
            return None
        out = {k for k, v in self.expansion.get("into", {}).items() if f.key in v}
        return out or None

    def live(self, funcs):
        """The functions among `funcs` that are functions in their own right: a private helper all of whose calls were expanded
        (sa/inline.py) only exists as a part of its callers and is examined there."""
        return [f for f in funcs if self.transparent_callers(f) is None]

    def find_func(self, key: str) -> FuncInfo | None:
        mod, _, local = key.partition(":")
        if mod not in self.modules:
            return None
        for f in self.modules[mod].all_funcs:
            if f.local == local:
                return f
        return None

    def all_funcs(self, include_external=False) -> Iterator[FuncInfo]:
        for m in self.modules.values():
            if m.external and not include_external:
                continue
            yield from m.all_funcs

    def pkg_modules(self) -> Iterator[Module]:
        for m in self.modules.values():
            if not m.external:
                yield m

    def rel(self, m: Module) -> str:
        try:
            return os.path.relpath(m.path, self.root)
        except ValueError:
            return m.path

    def where(self, f_or_m, node: ast.AST | None = None) -> str:
        m = f_or_m.module if isinstance(f_or_m, (FuncInfo, ClassInfo)) else f_or_m
        line = getattr(node, "lineno", None)
        if line is None and isinstance(f_or_m, (FuncInfo, ClassInfo)):
            line = f_or_m.node.lineno
        return f"{self.rel(m)}:{line}"


def _same(a, b) -> bool:
    if isinstance(a, ClassInfo) or isinstance(b, ClassInfo):
        return a is b
    return a == b


def _in_tail(x, seq) -> bool:
    return any(_same(x, y) for y in seq[1:])


def enclosing_function_node(node: ast.AST):
    p = getattr(node, "_parent", None)
    while p is not None and not isinstance(p, (ast.FunctionDef, ast.AsyncFunctionDef, ast.Lambda)):
        p = getattr(p, "_parent", None)
    return p


def own_nodes(fn_node: ast.AST) -> Iterator[ast.AST]:
    """All AST nodes of a function body excluding nested function/class bodies
    (lambda bodies and comprehensions included)."""
    if isinstance(fn_node, ast.Lambda):
        stack = [fn_node.body]
    else:
        stack = list(reversed(fn_node.body))
    while stack:
        n = stack.pop()
        yield n
        if isinstance(n, (ast.FunctionDef, ast.AsyncFunctionDef, ast.ClassDef)):
            continue  # a nested def is a statement of this function; its body is not
        for c in ast.iter_child_nodes(n):
            if isinstance(c, (ast.FunctionDef, ast.AsyncFunctionDef, ast.ClassDef)):
                continue
            stack.append(c)
