"""Static analyser for onnx/ir-py (see /verif/DESIGN.md).

Every module here reads source text only; nothing imports or executes ``onnx_ir``.
"""
