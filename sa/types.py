"""E2/E3 — light type inference and call/property resolution.

Types are frozensets of atoms:
  ('cls', ClassInfo)        instance of an indexed class
  ('type', ClassInfo)       the class object
  ('func', FuncInfo)        a function object; ('bound', FuncInfo) a bound method
  ('module', Module)
  ('proto', full)           protobuf message; ('protorep', full) repeated message field
  ('protoscalar', t) / ('protorepscalar', t) / ('protomap', t)
  ('seq', T)                homogeneous iterable; ('dict', K, V); ('tuple', (T, ...))
  ('ext', dotted)           anything outside the package
Unknown = empty frozenset.
"""

from __future__ import annotations

import ast

from .index import ClassInfo, FuncInfo, Module, Repo, dotted_of, own_nodes

EMPTY: frozenset = frozenset()

SEQ_NAMES = {
    "Sequence", "Iterable", "Iterator", "list", "List", "set", "Set", "frozenset", "FrozenSet",
    "Collection", "MutableSequence", "AbstractSet", "Generator", "Reversible", "KeysView",
    "ValuesView", "deque", "MutableSet",
}  # fmt: skip
DICT_NAMES = {
    "dict", "Dict", "Mapping", "MutableMapping", "OrderedDict", "defaultdict", "Counter", "UserDict",
}  # fmt: skip
# Generic method names never used for tier-4 (by-name) fallback: too ambiguous, and every
# package class that defines them is reached through typed receivers where it matters.
_TIER4_SKIP = {
    "append", "extend", "insert", "remove", "pop", "clear", "copy", "get", "items", "keys",
    "values", "update", "add", "discard", "sort", "index", "count", "join", "format", "split",
    "strip", "startswith", "endswith", "setdefault", "encode", "decode", "reshape", "view",
    "astype", "flatten", "tolist", "item", "close", "write", "read", "seek", "tell", "flush",
    "fileno", "lower", "upper", "replace", "group", "match", "popitem", "reverse", "result",
    "submit", "shutdown", "acquire", "release", "wait", "notify_all", "wait_for", "put",
}  # fmt: skip


def T(*atoms) -> frozenset:
    return frozenset(atoms)


def elem(t: frozenset) -> frozenset:
    out = set()
    for a in t:
        if a[0] == "seq":
            out |= a[1]
        elif a[0] == "dict":
            out |= a[1]
        elif a[0] == "tuple":
            for x in a[1]:
                out |= x
        elif a[0] == "protorep":
            out.add(("proto", a[1]))
        elif a[0] == "protorepscalar":
            out.add(("protoscalar", a[1]))
    return frozenset(out)


class Typer:
    def __init__(self, repo: Repo, schema=None):
        self.repo = repo
        self.schema = schema
        self._env_cache: dict[str, dict[str, frozenset]] = {}
        self._field_cache: dict[str, dict[str, frozenset]] = {}
        self._in_progress: set[str] = set()
        self._by_name: dict[str, list] | None = None
        self.stats = {"calls": 0, "resolved": 0, "tier4": 0, "external": 0, "unresolved": 0}

    # ------------------------------------------------------------ annotations
    def ann(self, expr: ast.expr | None, m: Module) -> frozenset:
        if expr is None:
            return EMPTY
        if isinstance(expr, ast.Constant):
            if isinstance(expr.value, str):
                try:
                    return self.ann(ast.parse(expr.value, mode="eval").body, m)
                except SyntaxError:
                    return EMPTY
            return EMPTY
        if isinstance(expr, ast.BinOp) and isinstance(expr.op, ast.BitOr):
            return self.ann(expr.left, m) | self.ann(expr.right, m)
        if isinstance(expr, ast.Subscript):
            head = dotted_of(expr.value) or ""
            base = head.rsplit(".", 1)[-1]
            sl = expr.slice
            args = list(sl.elts) if isinstance(sl, ast.Tuple) else [sl]
            if base in ("Optional", "Union", "Annotated", "Final", "ClassVar", "TypeGuard", "TypeIs"):
                out = EMPTY
                for a in args[: 1 if base == "Annotated" else None]:
                    out |= self.ann(a, m)
                return out
            if base in ("tuple", "Tuple"):
                if len(args) == 2 and isinstance(args[1], ast.Constant) and args[1].value is Ellipsis:
                    return T(("seq", self.ann(args[0], m)))
                return T(("tuple", tuple(self.ann(a, m) for a in args)))
            if base in SEQ_NAMES:
                return T(("seq", self.ann(args[0], m)))
            if base in DICT_NAMES and len(args) == 2:
                return T(("dict", self.ann(args[0], m), self.ann(args[1], m)))
            if base in ("Callable", "type", "Type", "Literal"):
                return EMPTY
            if base in ("RepeatedCompositeFieldContainer", "RepeatedCompositeContainer"):
                inner = self.ann(args[0], m)
                return frozenset(("protorep", a[1]) for a in inner if a[0] == "proto") or T(("protorep", "?"))
            if base in ("RepeatedScalarFieldContainer", "RepeatedScalarContainer"):
                return T(("protorepscalar", "?"))
            # user generic class: Tensor[...] etc.
            return self.ann(expr.value, m)
        d = dotted_of(expr)
        if d is None:
            return EMPTY
        base = d.rsplit(".", 1)[-1]
        full = self.repo.expand_dotted(m, d)
        if self.schema is not None and (full.startswith("onnx.") or full.startswith("onnx_ml_pb2")):
            tail = full.split(".", 1)[1]
            if tail in self.schema.messages:
                return T(("proto", tail))
        obj = self.repo.resolve_global(full)
        if isinstance(obj, ClassInfo):
            return T(("cls", obj))
        if isinstance(obj, tuple) and obj[0] == "attr":
            # type alias at module level
            mod = obj[1]
            val = mod.assigns.get(obj[2])
            if val is not None and not isinstance(val, ast.Call):
                return self.ann(val, mod)
            return EMPTY
        if base in SEQ_NAMES:
            return T(("seq", EMPTY))
        if base in DICT_NAMES:
            return T(("dict", EMPTY, EMPTY))
        if base in ("None", "Any", "object"):
            return EMPTY
        return T(("ext", full))

    # ----------------------------------------------------------------- fields
    def class_fields(self, c: ClassInfo) -> dict[str, frozenset]:
        """Declared/inferred types of instance fields written as ``self.f`` in methods of c."""
        if c.key in self._field_cache:
            return self._field_cache[c.key]
        fields: dict[str, frozenset] = {}
        self._field_cache[c.key] = fields
        for name, annx in c.ann_fields.items():
            fields[name] = self.ann(annx, c.module)
        funcs = list(c.methods.values()) + [f for p in c.props.values() for f in p.values()]
        funcs.sort(key=lambda f: (f.name != "__init__", f.lineno))
        for f in funcs:
            if isinstance(f.node, ast.Lambda) or not f.params:
                continue
            selfname = f.params[0]
            for n in own_nodes(f.node):
                if isinstance(n, ast.AnnAssign) and _is_self_attr(n.target, selfname):
                    fields[n.target.attr] = fields.get(n.target.attr, EMPTY) | self.ann(
                        n.annotation, c.module
                    )
            if f.name == "__init__":
                for n in own_nodes(f.node):
                    if isinstance(n, ast.Assign):
                        for t in n.targets:
                            if _is_self_attr(t, selfname) and not fields.get(t.attr):
                                fields[t.attr] = self.type_of(f, n.value)
        return fields

    def field_type(self, c: ClassInfo, name: str) -> frozenset:
        for k in self.repo.mro(c):
            if isinstance(k, ClassInfo):
                ft = self.class_fields(k).get(name)
                if ft:
                    return ft
        return EMPTY

    # -------------------------------------------------------------------- env
    def env(self, f: FuncInfo) -> dict[str, frozenset]:
        if f.key in self._env_cache:
            return self._env_cache[f.key]
        env: dict[str, frozenset] = {}
        self._env_cache[f.key] = env
        if f.parent is not None:
            env.update(self.env(f.parent))
        a = f.node.args
        allargs = a.posonlyargs + a.args + a.kwonlyargs
        for i, arg in enumerate(allargs):
            t = self.ann(arg.annotation, f.module)
            if i == 0 and f.cls is not None and f.kind not in ("staticmethod",):
                if f.kind == "classmethod":
                    t = T(("type", f.cls))
                else:
                    t = T(("cls", getattr(f, "self_cls", None) or f.cls))
            env[arg.arg] = t
        if a.vararg:
            env[a.vararg.arg] = T(("seq", self.ann(a.vararg.annotation, f.module)))
        if a.kwarg:
            env[a.kwarg.arg] = T(("dict", EMPTY, self.ann(a.kwarg.annotation, f.module)))
        if isinstance(f.node, ast.Lambda):
            return env
        for i in range(4):
            before = dict(env) if i >= 2 else None
            for n in own_nodes(f.node):
                self._bind_stmt(f, n, env)
            if before is not None and before == env:
                break  # bindings are visited in tree order, not in data-flow order: iterate until nothing is learnt
        return env

    def _bind(self, env, target: ast.expr, t: frozenset) -> None:
        if isinstance(target, ast.Name):
            if t:
                env[target.id] = env.get(target.id, EMPTY) | t
            else:
                env.setdefault(target.id, EMPTY)
        elif isinstance(target, (ast.Tuple, ast.List)):
            for i, sub in enumerate(target.elts):
                if isinstance(sub, ast.Starred):
                    self._bind(env, sub.value, T(("seq", elem(t))))
                    continue
                st = set()
                for a in t:
                    if a[0] == "tuple" and i < len(a[1]):
                        st |= a[1][i]
                    elif a[0] in ("seq",):
                        st |= a[1]
                self._bind(env, sub, frozenset(st))

    def _bind_stmt(self, f, n, env) -> None:
        if isinstance(n, ast.Assign):
            t = self.type_of(f, n.value, env)
            for tgt in n.targets:
                self._bind(env, tgt, t)
        elif isinstance(n, ast.AnnAssign) and isinstance(n.target, ast.Name):
            t = self.ann(n.annotation, f.module)
            if not t and n.value is not None:
                t = self.type_of(f, n.value, env)
            self._bind(env, n.target, t)
        elif isinstance(n, (ast.For, ast.AsyncFor)):
            self._bind(env, n.target, self.iter_elem(f, n.iter, env))
        elif isinstance(n, ast.comprehension):
            self._bind(env, n.target, self.iter_elem(f, n.iter, env))
        elif isinstance(n, (ast.With, ast.AsyncWith)):
            for item in n.items:
                if item.optional_vars is not None:
                    t = self.type_of(f, item.context_expr, env)
                    # context managers returning self (files, executors) keep their type
                    self._bind(env, item.optional_vars, t)
        elif isinstance(n, ast.NamedExpr):
            self._bind(env, n.target, self.type_of(f, n.value, env))
        elif isinstance(n, ast.ExceptHandler) and n.name:
            env.setdefault(n.name, EMPTY)
        elif isinstance(n, ast.Expr) and isinstance(n.value, ast.Call) and isinstance(n.value.func, ast.Attribute) and isinstance(n.value.func.value, ast.Name) \
                and n.value.func.attr in ("append", "add", "appendleft") and len(n.value.args) == 1:
            # a local list / set / deque learns its element type from what is put in
            nm = n.value.func.value.id
            cur = env.get(nm)
            if cur is not None and nm not in f.params and all(a[0] == "seq" for a in cur):
                t = self.type_of(f, n.value.args[0], env)
                if t:
                    env[nm] = frozenset({("seq", elem(cur) | t)})

    def iter_elem(self, f, it: ast.expr, env=None) -> frozenset:
        env = env if env is not None else self.env(f)
        if isinstance(it, ast.Call):
            fn = dotted_of(it.func)
            if fn == "enumerate" and it.args:
                return T(("tuple", (T(("ext", "int")), self.iter_elem(f, it.args[0], env))))
            if fn == "zip":
                return T(("tuple", tuple(self.iter_elem(f, a, env) for a in it.args)))
            if fn in ("reversed", "sorted", "list", "tuple", "iter", "set", "frozenset") and it.args:
                return self.iter_elem(f, it.args[0], env)
            if fn == "range":
                return T(("ext", "int"))
            if isinstance(it.func, ast.Attribute) and it.func.attr in ("items", "values", "keys"):
                bt = self.type_of(f, it.func.value, env)
                out = set()
                for a in bt:
                    k, v = self._dict_kv(a)
                    if k is None:
                        continue
                    if it.func.attr == "items":
                        out.add(("tuple", (k, v)))
                    elif it.func.attr == "values":
                        out |= v
                    else:
                        out |= k
                if out:
                    return frozenset(out)
        t = self.type_of(f, it, env)
        out = set(elem(t))
        for a in t:
            if a[0] == "cls":
                k, v = self._dict_kv(a)
                if k is not None:
                    out |= k
                    continue
                hit = self.repo.lookup(a[1], "__iter__")
                if isinstance(hit, FuncInfo) and hit.node.returns is not None:
                    out |= elem(self.ann(hit.node.returns, hit.module))
                elif self._userlist_elem(a[1]):
                    out |= self._userlist_elem(a[1])
        return frozenset(out)

    def _userlist_elem(self, c: ClassInfo) -> frozenset:
        for k in self.repo.mro(c):
            if isinstance(k, ClassInfo):
                for b in k.base_exprs:
                    if isinstance(b, ast.Subscript) and (dotted_of(b.value) or "").endswith(
                        ("UserList", "Sequence", "DoublyLinkedSet")
                    ):
                        return self.ann(b.slice, k.module)
        return EMPTY

    def _dict_kv(self, a):
        if a[0] == "dict":
            return a[1], a[2]
        if a[0] == "protomap":
            return T(("ext", "str")), T(("protoscalar", a[1]))
        if a[0] == "cls":
            for k in self.repo.mro(a[1]):
                if isinstance(k, ClassInfo):
                    for b in k.base_exprs:
                        if isinstance(b, ast.Subscript) and (dotted_of(b.value) or "").endswith(
                            ("UserDict", "Mapping", "dict")
                        ):
                            sl = b.slice
                            if isinstance(sl, ast.Tuple) and len(sl.elts) == 2:
                                return self.ann(sl.elts[0], k.module), self.ann(sl.elts[1], k.module)
        return None, None

    # ---------------------------------------------------------------- type_of
    def type_of(self, f: FuncInfo, e: ast.expr, env=None) -> frozenset:
        env = env if env is not None else self.env(f)
        m = f.module
        if isinstance(e, ast.Name):
            if e.id in env:
                return env[e.id]
            g = f
            while g is not None:
                if e.id in g.nested:
                    return T(("func", g.nested[e.id]))
                g = g.parent
            return self._global_type(m, e.id)
        if isinstance(e, ast.Attribute):
            d = dotted_of(e)
            if d is not None and isinstance(e.value, (ast.Name, ast.Attribute)):
                root = d.split(".")[0]
                if root not in env:
                    obj = self.repo.resolve_dotted_in(m, d)
                    t = self._obj_type(obj)
                    if t is not None:
                        return t
            bt = self.type_of(f, e.value, env)
            return self.attr_type(bt, e.attr)
        if isinstance(e, ast.Call):
            return self.call_type(f, e, env)
        if isinstance(e, ast.Subscript):
            bt = self.type_of(f, e.value, env)
            out = set()
            for a in bt:
                if a[0] == "seq":
                    if isinstance(e.slice, ast.Slice):
                        out.add(a)
                    else:
                        out |= a[1]
                elif a[0] == "dict":
                    out |= a[2]
                elif a[0] == "tuple":
                    if isinstance(e.slice, ast.Constant) and isinstance(e.slice.value, int):
                        if -len(a[1]) <= e.slice.value < len(a[1]):
                            out |= a[1][e.slice.value]
                    else:
                        for x in a[1]:
                            out |= x
                elif a[0] == "protorep":
                    out.add(a if isinstance(e.slice, ast.Slice) else ("proto", a[1]))
                elif a[0] == "protorepscalar":
                    out.add(a if isinstance(e.slice, ast.Slice) else ("protoscalar", a[1]))
                elif a[0] == "protomap":
                    out.add(("protoscalar", a[1]))
                elif a[0] == "cls":
                    k, v = self._dict_kv(a)
                    if v is not None:
                        out |= v
                        continue
                    hit = self.repo.lookup(a[1], "__getitem__")
                    if isinstance(hit, FuncInfo) and hit.node.returns is not None:
                        out |= self.ann(hit.node.returns, hit.module)
                    else:
                        out |= self._userlist_elem(a[1])
            return frozenset(out)
        if isinstance(e, ast.IfExp):
            return self.type_of(f, e.body, env) | self.type_of(f, e.orelse, env)
        if isinstance(e, ast.BoolOp):
            out = EMPTY
            for v in e.values:
                out |= self.type_of(f, v, env)
            return out
        if isinstance(e, ast.NamedExpr):
            return self.type_of(f, e.value, env)
        if isinstance(e, (ast.List, ast.Set)):
            out = EMPTY
            for x in e.elts:
                out |= self.type_of(f, x.value if isinstance(x, ast.Starred) else x, env)
                if isinstance(x, ast.Starred):
                    out = elem(out) | out
            return T(("seq", out))
        if isinstance(e, ast.Tuple):
            if any(isinstance(x, ast.Starred) for x in e.elts):
                out = EMPTY
                for x in e.elts:
                    if isinstance(x, ast.Starred):
                        out |= self.iter_elem(f, x.value, env)
                    else:
                        out |= self.type_of(f, x, env)
                return T(("seq", out))
            return T(("tuple", tuple(self.type_of(f, x, env) for x in e.elts)))
        if isinstance(e, ast.Dict):
            k = v = EMPTY
            for kk, vv in zip(e.keys, e.values):
                if kk is not None:
                    k |= self.type_of(f, kk, env)
                    v |= self.type_of(f, vv, env)
            return T(("dict", k, v))
        if isinstance(e, (ast.ListComp, ast.SetComp, ast.GeneratorExp)):
            env2 = dict(env)
            for g in e.generators:
                self._bind(env2, g.target, self.iter_elem(f, g.iter, env2))
            return T(("seq", self.type_of(f, e.elt, env2)))
        if isinstance(e, ast.DictComp):
            env2 = dict(env)
            for g in e.generators:
                self._bind(env2, g.target, self.iter_elem(f, g.iter, env2))
            return T(("dict", self.type_of(f, e.key, env2), self.type_of(f, e.value, env2)))
        if isinstance(e, ast.Constant):
            if e.value is None:
                return EMPTY
            return T(("ext", type(e.value).__name__))
        if isinstance(e, ast.JoinedStr):
            return T(("ext", "str"))
        if isinstance(e, ast.Lambda):
            fi = getattr(e, "_funcinfo", None)
            return T(("func", fi)) if fi else EMPTY
        if isinstance(e, ast.Starred):
            return self.type_of(f, e.value, env)
        if isinstance(e, ast.Await):
            return self.type_of(f, e.value, env)
        if isinstance(e, ast.BinOp):
            lt = self.type_of(f, e.left, env)
            if any(a[0] in ("seq", "tuple") for a in lt):
                return lt | self.type_of(f, e.right, env)
            return EMPTY
        return EMPTY

    def _obj_type(self, obj):
        if isinstance(obj, ClassInfo):
            return T(("type", obj))
        if isinstance(obj, FuncInfo):
            return T(("func", obj))
        if isinstance(obj, Module):
            return T(("module", obj))
        if isinstance(obj, dict):  # property on a class object
            return None
        if isinstance(obj, tuple):
            if obj[0] == "ext":
                return T(("ext", obj[1]))
            if obj[0] == "attr":
                return self._module_assign_type(obj[1], obj[2])
        return None

    def _module_assign_type(self, m: Module, name: str, _depth=0):
        """Type of a module-level ``name = <expr>`` (aliases of functions/classes, loggers)."""
        val = m.assigns.get(name)
        if val is None or _depth > 4:
            return None
        d = dotted_of(val)
        if d is not None:
            obj = self.repo.resolve_dotted_in(m, d)
            if isinstance(obj, tuple) and obj[0] == "attr" and (obj[1] is not m or obj[2] != name):
                return self._module_assign_type(obj[1], obj[2], _depth + 1)
            return self._obj_type(obj) if not (isinstance(obj, tuple) and obj[0] == "attr") else None
        if isinstance(val, ast.Call):
            d = dotted_of(val.func)
            if d is not None:
                obj = self.repo.resolve_dotted_in(m, d)
                if isinstance(obj, ClassInfo):
                    return T(("cls", obj))
                if isinstance(obj, tuple) and obj[0] == "ext":
                    return T(("ext", obj[1] + "()"))
        return None

    def _global_type(self, m: Module, name: str) -> frozenset:
        if name in m.classes:
            return T(("type", m.classes[name]))
        if name in m.functions:
            return T(("func", m.functions[name]))
        if name in m.imports:
            obj = self.repo.resolve_global(m.imports[name])
            t = self._obj_type(obj)
            return t if t is not None else EMPTY
        if name in m.assigns:
            t = self._module_assign_type(m, name)
            return t if t is not None else EMPTY
        return EMPTY

    def attr_type(self, bt: frozenset, attr: str) -> frozenset:
        out = set()
        for a in bt:
            if a[0] == "cls":
                hits = self._lookup_dyn(a[1], attr)
                got = False
                for hit in hits:
                    if isinstance(hit, dict):
                        g = hit.get("get")
                        if g is not None and g.node.returns is not None:
                            out |= self.ann(g.node.returns, g.module)
                        got = True
                    elif isinstance(hit, FuncInfo):
                        out.add(("bound", hit))
                        got = True
                if not got or not out:
                    out |= self.field_type(a[1], attr)
                    for sub in self.repo.subclasses(a[1]):
                        out |= self.class_fields(sub).get(attr, EMPTY)
            elif a[0] == "type":
                hit = self.repo.lookup(a[1], attr)
                if isinstance(hit, FuncInfo):
                    out.add(("func", hit))
            elif a[0] == "module":
                t = self._obj_type(self.repo.resolve_global(f"{a[1].name}.{attr}"))
                if t:
                    out |= t
            elif a[0] == "proto" and a[1] == "?":
                # a message of unknown kind: a field name that a single message of the schema declares still says what it is
                # (`<?>.tensor_type` can only be TypeProto.tensor_type)
                owners = [m for m in self.schema.messages.values() if attr in m.fields] if self.schema is not None else []
                if len(owners) == 1:
                    fld = owners[0].fields[attr]
                    tgt = self.schema.resolve_type(owners[0], fld.type)
                    if fld.label == "map":
                        out.add(("protomap", fld.type))
                    elif tgt is not None:
                        out.add(("protorep" if fld.label == "repeated" else "proto", tgt.full))
                    else:
                        out.add(("protorepscalar" if fld.label == "repeated" else "protoscalar", fld.type))
                else:
                    out.add(("proto", "?"))
            elif a[0] == "proto" and self.schema is not None:
                msg = self.schema.messages.get(a[1])
                if msg and attr in msg.fields:
                    fld = msg.fields[attr]
                    tgt = self.schema.resolve_type(msg, fld.type)
                    if fld.label == "map":
                        out.add(("protomap", fld.type))
                    elif tgt is not None:
                        out.add(("protorep" if fld.label == "repeated" else "proto", tgt.full))
                    else:
                        out.add(
                            ("protorepscalar" if fld.label == "repeated" else "protoscalar", fld.type)
                        )
            elif a[0] == "ext":
                out.add(("ext", f"{a[1]}.{attr}"))
        return frozenset(out)

    def _lookup_dyn(self, c: ClassInfo, name: str) -> list:
        """Definitions of ``name`` visible on a receiver statically typed ``c``:
        the MRO hit plus overrides in subclasses; abstract/protocol stubs dropped when
        a concrete definition exists."""
        hits = []
        h = self.repo.lookup(c, name)
        if h is not None and not (isinstance(h, tuple)):
            hits.append(h)
        for sub in self.repo.subclasses(c):
            if name in sub.methods:
                hits.append(sub.methods[name])
            elif name in sub.props:
                hits.append(sub.props[name])
            elif name in sub.aliases:
                t = sub.aliases[name]
                if isinstance(t, ast.Name) and t.id in sub.methods:
                    hits.append(sub.methods[t.id])
        uniq = []
        for x in hits:
            if not any(x is y for y in uniq):
                uniq.append(x)
        concrete = [x for x in uniq if not _is_stub(x)]
        return concrete if concrete else uniq

    def call_type(self, f, e: ast.Call, env) -> frozenset:
        fn = e.func
        d = dotted_of(fn)
        if d in ("list", "tuple", "set", "frozenset", "sorted", "reversed", "iter") and e.args:
            return T(("seq", self.iter_elem(f, e.args[0], env)))
        if d in ("list", "set", "frozenset", "tuple") and not e.args:
            return T(("seq", EMPTY))
        if d == "dict":
            if e.args:
                t = self.type_of(f, e.args[0], env)
                for a in t:
                    k, v = self._dict_kv(a)
                    if k is not None:
                        return T(("dict", k, v))
            return T(("dict", EMPTY, EMPTY))
        if d == "next" and e.args:
            return self.iter_elem(f, e.args[0], env)
        if d in ("len", "id", "int", "hash"):
            return T(("ext", "int"))
        if d in ("str", "repr"):
            return T(("ext", "str"))
        if d == "super":
            return T(("super",))
        if d == "getattr" and len(e.args) >= 2:
            bt = self.type_of(f, e.args[0], env)
            if isinstance(e.args[1], ast.Constant) and isinstance(e.args[1].value, str):
                t = self.attr_type(bt, e.args[1].value)
                if t:
                    return t
            names = self._ranged_constants(f, e.args[1])
            if names:
                # getattr(proto, field) with `field` ranging over a literal tuple: the union of the named fields
                out = EMPTY
                for nm in names:
                    out |= self.attr_type(bt, nm)
                if out:
                    return out
            if any(a[0].startswith("proto") for a in bt):
                return T(("proto", "?"))
            return EMPTY
        if d in ("_get_field",) and len(e.args) == 2:
            bt = self.type_of(f, e.args[0], env)
            if isinstance(e.args[1], ast.Constant) and isinstance(e.args[1].value, str):
                return self.attr_type(bt, e.args[1].value)
            return EMPTY
        if d in ("typing.cast", "cast") and len(e.args) == 2:
            return self.ann(e.args[0], f.module) or self.type_of(f, e.args[1], env)
        if d in ("copy.copy", "copy.deepcopy") and e.args:
            return self.type_of(f, e.args[0], env)
        if d in ("dataclasses.replace",) and e.args:
            return self.type_of(f, e.args[0], env)
        if isinstance(fn, ast.Attribute):
            bt = self.type_of(f, fn.value, env)
            out = set()
            for a in bt:
                if a[0] in ("dict", "protomap") or (a[0] == "cls" and self._dict_kv(a)[0] is not None):
                    k, v = self._dict_kv(a)
                    if fn.attr in ("get", "pop", "setdefault"):
                        out |= v
                    elif fn.attr == "values":
                        out.add(("seq", v))
                    elif fn.attr == "keys":
                        out.add(("seq", k))
                    elif fn.attr == "items":
                        out.add(("seq", T(("tuple", (k, v)))))
                    elif fn.attr == "copy":
                        out.add(("dict", k, v))
                elif a[0] == "seq":
                    if fn.attr in ("pop", "__getitem__"):
                        out |= a[1]
                    elif fn.attr == "copy":
                        out.add(a)
                elif a[0] == "protorep" and fn.attr == "add":
                    out.add(("proto", a[1]))
                elif a[0] == "protorep" and fn.attr == "pop":
                    out.add(("proto", a[1]))
            if out:
                return frozenset(out)
        ct = self.type_of(f, fn, env)
        out = set()
        for a in ct:
            if a[0] == "type":
                out.add(("cls", a[1]))
            elif a[0] in ("func", "bound"):
                g = a[1]
                if not isinstance(g.node, ast.Lambda) and g.node.returns is not None:
                    rt = self.ann(g.node.returns, g.module)
                    if _is_generator(g):
                        pass
                    if not rt and not _is_generator(g):
                        rt = self.inferred_return(g)
                    out |= rt
                elif not isinstance(g.node, ast.Lambda) and not _is_generator(g):
                    out |= self.inferred_return(g)
                elif isinstance(g.node, ast.Lambda):
                    out |= self.type_of(g, g.node.body)
            elif a[0] == "ext":
                if self.schema is not None and a[1].startswith("onnx."):
                    tail = a[1].split(".", 1)[1]
                    if tail in self.schema.messages:
                        out.add(("proto", tail))
                        continue
                out.add(("ext", a[1] + "()"))
        return frozenset(out)

    @staticmethod
    def _ranged_constants(f: FuncInfo, e) -> list[str]:
        """String constants a name stands for when it is the target of an enclosing `for name in (<constants>)`."""
        if not isinstance(e, ast.Name):
            return []
        p_ = getattr(e, "_parent", None)
        while p_ is not None and p_ is not f.node:
            if isinstance(p_, (ast.For, ast.comprehension)) and isinstance(p_.target, ast.Name) and p_.target.id == e.id \
                    and isinstance(p_.iter, (ast.Tuple, ast.List, ast.Set)):
                return [x.value for x in p_.iter.elts if isinstance(x, ast.Constant) and isinstance(x.value, str)]
            p_ = getattr(p_, "_parent", None)
        return []

    def inferred_return(self, g: FuncInfo) -> frozenset:
        """Type of a package function that says nothing useful about its result
        (no annotation, ``Any``): the union of the types of the expressions it
        returns.  Recursion answers EMPTY."""
        cache = self.__dict__.setdefault("_inferred_returns", {})
        if g in cache:
            return cache[g] or EMPTY
        cache[g] = None
        out = set()
        try:
            env = self.env(g)
            for n in own_nodes(g.node):
                if isinstance(n, ast.Return) and n.value is not None:
                    out |= self.type_of(g, n.value, env)
        except RecursionError:
            out = set()
        cache[g] = frozenset(out)
        return cache[g]

    # ------------------------------------------------------------ resolution
    def by_name(self, name: str) -> list:
        if self._by_name is None:
            self._by_name = {}
            for m in self.repo.pkg_modules():
                for c in m.classes.values():
                    for n, fn in c.methods.items():
                        self._by_name.setdefault(n, []).append(fn)
                    for n, p in c.props.items():
                        self._by_name.setdefault(n, []).append(p)
        return self._by_name.get(name, [])

    def callees(self, f: FuncInfo, call: ast.Call, tier4: bool = True):
        """Resolve a call. Returns (list[FuncInfo], status) with status in
        'resolved' | 'tier4' | 'external' | 'unresolved'."""
        self.stats["calls"] += 1
        fn = call.func
        env = self.env(f)
        out: list[FuncInfo] = []
        status = "unresolved"
        if isinstance(fn, ast.Attribute):
            # super().m(...)
            if isinstance(fn.value, ast.Call) and dotted_of(fn.value.func) == "super":
                oc = f.owner_class
                if oc is not None:
                    hits = []
                    h = self.repo.lookup(oc, fn.attr, after=oc)
                    if isinstance(h, FuncInfo):
                        hits.append(h)
                    # dynamic type may be a subclass whose MRO inserts other classes; the
                    # package has no such diamond for the analysed classes.
                    out = hits
                    status = "resolved" if hits else "external"
                    self.stats[status] += 1
                    return out, status
            bt = self.type_of(f, fn.value, env)
            known = False
            for a in bt:
                if a[0] == "cls":
                    known = True
                    for hit in self._lookup_dyn(a[1], fn.attr):
                        if isinstance(hit, FuncInfo):
                            out.append(hit)
                        elif isinstance(hit, dict) and "get" in hit:
                            out.append(hit["get"])  # calling the result of a property
                elif a[0] == "type":
                    known = True
                    h = self.repo.lookup(a[1], fn.attr)
                    if isinstance(h, FuncInfo):
                        out.append(h)
                elif a[0] == "module":
                    known = True
                    obj = self.repo.resolve_global(f"{a[1].name}.{fn.attr}")
                    out += self._callable_targets(obj)
                elif a[0] in ("ext", "proto", "protorep", "protoscalar", "protorepscalar",
                              "protomap", "seq", "dict", "tuple", "func", "bound"):  # fmt: skip
                    known = True
            if out:
                status = "resolved"
            elif known:
                status = "external"
            else:
                d = dotted_of(fn)
                if d is not None:
                    root = d.split(".")[0]
                    if root not in env:
                        obj = self.repo.resolve_dotted_in(f.module, d)
                        tg = self._callable_targets(obj)
                        if tg:
                            out, status = tg, "resolved"
                        elif isinstance(obj, tuple) and obj[0] == "ext" and root in f.module.imports:
                            status = "external"
                if status == "unresolved" and tier4 and fn.attr not in _TIER4_SKIP:
                    for hit in self.by_name(fn.attr):
                        if isinstance(hit, FuncInfo):
                            out.append(hit)
                    if out:
                        concrete = [x for x in out if not _is_stub(x)]
                        out = concrete or out
                        status = "tier4"
        else:
            ct = self.type_of(f, fn, env)
            for a in ct:
                if a[0] in ("func", "bound"):
                    out.append(a[1])
                elif a[0] == "type":
                    out += self._ctor_targets(a[1])
                    status = "resolved"
                elif a[0] == "ext":
                    status = "external"
            if out:
                status = "resolved"
            elif status == "unresolved":
                d = dotted_of(fn)
                if d is not None and isinstance(fn, ast.Name) and d not in env:
                    if d not in f.module.imports and d not in f.module.assigns:
                        status = "external"  # builtin
        uniq = []
        for x in out:
            if not any(x is y for y in uniq):
                uniq.append(x)
        self.stats[status] += 1
        return uniq, status

    def _ctor_targets(self, c: ClassInfo) -> list[FuncInfo]:
        out = []
        for name in ("__init__", "__post_init__", "__new__"):
            h = self.repo.lookup(c, name)
            if isinstance(h, FuncInfo) and not h.module.external:
                out.append(h)
        return out

    def _callable_targets(self, obj) -> list[FuncInfo]:
        if isinstance(obj, FuncInfo):
            return [obj]
        if isinstance(obj, ClassInfo):
            return self._ctor_targets(obj)
        return []

    def ctor_class(self, f: FuncInfo, call: ast.Call) -> ClassInfo | None:
        ct = self.type_of(f, call.func)
        for a in ct:
            if a[0] == "type":
                return a[1]
        return None

    def prop_targets(self, f: FuncInfo, attr: ast.Attribute, which: str) -> list[FuncInfo]:
        """Property getter ('get') / setter ('set') functions an attribute access runs."""
        bt = self.type_of(f, attr.value)
        out = []
        for a in bt:
            if a[0] == "cls":
                for hit in self._lookup_dyn(a[1], attr.attr):
                    if isinstance(hit, dict) and which in hit:
                        out.append(hit[which])
        return out

    def recv_classes(self, f: FuncInfo, e: ast.expr) -> list[ClassInfo]:
        return [a[1] for a in self.type_of(f, e) if a[0] == "cls"]


def _is_self_attr(t, selfname) -> bool:
    return (
        isinstance(t, ast.Attribute)
        and isinstance(t.value, ast.Name)
        and t.value.id == selfname
    )


def _is_stub(x) -> bool:
    if isinstance(x, dict):
        x = x.get("get")
        if x is None:
            return False
    if not isinstance(x, FuncInfo) or isinstance(x.node, ast.Lambda):
        return False
    if x.is_abstract_stub():
        return True
    if any((dotted_of(d) or "").endswith("abstractmethod") for d in x.node.decorator_list):
        return True
    # nothing but docstring / pass / constants bound to locals
    return all(FuncInfo._trivial(s) for s in x.node.body)


def _is_generator(f: FuncInfo) -> bool:
    return any(isinstance(n, (ast.Yield, ast.YieldFrom)) for n in own_nodes(f.node))
