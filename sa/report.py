"""E6 — findings, obligations, evidence files, known-findings handling."""

from __future__ import annotations

import hashlib
import ast
import json
import os
import time

from .index import AnalysisError, ClassInfo, FuncInfo, Repo, norm, short

VERIF = os.path.dirname(os.path.dirname(os.path.abspath(__file__)))


class Finding:
    def __init__(self, prop, rule, symbol, construct, detail, file="", line=0, path=None):
        self.prop = prop
        self.rule = rule
        self.symbol = symbol
        self.construct = construct
        self.detail = detail
        self.file = file
        self.line = line
        self.path = path or []

    @property
    def key(self) -> str:
        return f"{self.prop}|{self.rule}|{self.symbol}|{self.construct}"

    def to_json(self):
        return {
            "property": self.prop,
            "rule": self.rule,
            "symbol": self.symbol,
            "construct": self.construct,
            "detail": self.detail,
            "file": self.file,
            "line": self.line,
            "path": self.path,
            "key": self.key,
        }

    def short(self) -> str:
        return f"{self.rule} {self.symbol} :: {self.construct} — {self.detail} [{self.file}:{self.line}]"


class Ctx:
    """Per-run context handed to a property's rule module."""

    def __init__(self, prop: str, repo: Repo, typer, schema, tier: str, rules: dict[str, str]):
        self.prop = prop
        self.repo = repo
        self.typer = typer
        self.schema = schema
        self.tier = tier
        self.rules = rules
        self.findings: list[Finding] = []
        self.obligations: list[dict] = []
        self.counts: dict[str, int] = {}
        self.notes: list[str] = []
        self.tables: dict[str, object] = {}
        self._shared: dict = {}

    # -- obligations
    def ob(self, rule: str, instance: str, ok: bool, nontrivial: bool = True, how: str = "") -> None:
        """Record one examined rule instance."""
        if rule not in self.rules:
            raise AnalysisError(f"rule {rule} not declared for {self.prop}")
        self.obligations.append(
            {"rule": rule, "instance": instance, "ok": bool(ok), "nontrivial": nontrivial, "how": how}
        )
        self.counts[rule] = self.counts.get(rule, 0) + 1

    def violation(self, rule, where, node, detail, symbol=None, construct=None, path=None) -> Finding:
        """``where``: FuncInfo / ClassInfo / Module the construct lives in."""
        if isinstance(where, (FuncInfo, ClassInfo)):
            sym = symbol or where.key
            m = where.module
            line = getattr(node, "lineno", None) or where.node.lineno
        else:
            sym = symbol or getattr(where, "name", str(where))
            m = where
            line = getattr(node, "lineno", 0)
        file = self.repo.rel(m) if hasattr(m, "path") else ""
        canon = None
        is_node = isinstance(node, ast.AST) and not isinstance(node, (ast.FunctionDef, ast.AsyncFunctionDef))
        if construct is None:
            construct = short(node) if node is not None and not isinstance(node, str) else str(node)
        # alpha-stable form of the construct when it is the text of the node (locals → $rank): a known finding still
        # matches after a behaviour-preserving renaming of local variables
        if isinstance(where, FuncInfo) and is_node and construct == short(node):
            from .effects import cnorm

            try:
                canon = short(cnorm(node, where.node))
            except Exception:
                canon = None
        f = Finding(self.prop, rule, sym, construct, detail, file, line, path)
        f.canon = canon
        if not any(x.key == f.key for x in self.findings):
            self.findings.append(f)
        return f

    def check(self, rule, instance, ok, where, node, detail, nontrivial=True, how="", **kw) -> bool:
        self.ob(rule, instance, ok, nontrivial, how)
        if not ok:
            self.violation(rule, where, node, detail, **kw)
        return ok

    def floor(self, rule: str, minimum: int, what: str = "instances") -> None:
        got = self.counts.get(rule, 0)
        if got < minimum:
            raise AnalysisError(
                f"{self.prop}-{rule}: only {got} {what} examined, floor is {minimum} "
                "(anchor moved or idiom no longer recognised — the rule would pass vacuously)"
            )

    def require(self, cond: bool, msg: str) -> None:
        if not cond:
            raise AnalysisError(f"{self.prop}: {msg}")

    def note(self, text: str) -> None:
        self.notes.append(text)


# --------------------------------------------------------------------- known findings
def load_known(path=None) -> dict:
    path = path or os.path.join(VERIF, "known_findings.json")
    if not os.path.isfile(path):
        return {"known": [], "fixed": []}
    with open(path, encoding="utf-8") as f:
        data = json.load(f)
    data.setdefault("known", [])
    data.setdefault("fixed", [])
    return data


def match_known(f: Finding, known: list[dict]) -> dict | None:
    for k in known:
        if (
            k.get("property") == f.prop
            and k.get("rule") == f.rule
            and k.get("symbol") == f.symbol
            and (k.get("construct") == f.construct or (getattr(f, "canon", None) and k.get("construct_canon") == f.canon))
        ):
            return k
    return None


# ----------------------------------------------------------------------------- output
def write_evidence(ctx: Ctx, module, wall: float, seed: int, n_viol: int, n_known: int, extra=None):
    obs = ctx.obligations
    distinct_nt = len({(o["rule"], o["instance"]) for o in obs if o["nontrivial"]})
    samples = []
    per_rule_seen: dict[str, int] = {}
    for o in obs:
        if per_rule_seen.get(o["rule"], 0) < 4:
            per_rule_seen[o["rule"]] = per_rule_seen.get(o["rule"], 0) + 1
            samples.append(
                {"rule": o["rule"], "instance": o["instance"], "verdict": "holds" if o["ok"] else "FAILS", "how": o["how"]}
            )
    cov = {
        "explanation": getattr(module, "EXPLANATION", "").strip()
        + " Decides the listed structural clauses, not the behaviour.",
        "obligations": len(obs),
        "discharged": sum(1 for o in obs if o["ok"]),
        "evaluations": max(len(obs), 1),
        "distinct_nontrivial": distinct_nt,
        "rule": "one obligation per (rule, code instance) found in /repo's current source; "
        "non-trivial = needed a path query, an effect summary, type-resolved data flow or a "
        "table comparison rather than a bare syntactic match; distinct by (rule, instance)",
        "samples": samples,
        "exhaustive": True,
        "rules": ctx.rules,
        "instances_per_rule": ctx.counts,
        "not_decided": getattr(module, "NOT_DECIDED", ""),
        "modules_parsed": sum(1 for _ in ctx.repo.pkg_modules()),
        "functions_indexed": sum(len(m.all_funcs) for m in ctx.repo.pkg_modules()),
        "resolver": dict(ctx.typer.stats) if ctx.typer is not None else {},
        "tables": ctx.tables,
        "notes": ctx.notes,
        "known_findings_matched": n_known,
        "findings": [f.to_json() for f in ctx.findings],
        "checker_cmd": f"/verif/check {ctx.prop} --tier {ctx.tier}",
        "trusted_base": [
            "the analyser in /verif/sa (index, resolver, CFG, summaries) and its idiom tables",
            "CPython ast semantics; third-party code (numpy, sympy, onnx, protobuf, OS) not analysed",
        ],
    }
    if extra:
        cov.update(extra)
    ev = {
        "property_id": ctx.prop,
        "tier": ctx.tier,
        "seed": seed,
        "level": "other",
        "coverage": cov,
        "assumptions": list(getattr(module, "ASSUMPTIONS", [])),
        "wall_s": round(wall, 3),
        "violations": n_viol,
    }
    d = os.path.join(VERIF, "evidence")
    os.makedirs(d, exist_ok=True)
    tmp = os.path.join(d, f".{ctx.prop}.json.tmp")
    with open(tmp, "w", encoding="utf-8") as f:
        json.dump(ev, f, indent=1, sort_keys=False, default=str)
    os.replace(tmp, os.path.join(d, f"{ctx.prop}.json"))


def write_replay(f: Finding) -> str:
    d = os.path.join(VERIF, "replay", f.prop)
    os.makedirs(d, exist_ok=True)
    h = hashlib.sha1(f.key.encode()).hexdigest()[:12]
    p = os.path.join(d, f"{f.rule}-{h}.json")
    with open(p, "w", encoding="utf-8") as fh:
        json.dump(f.to_json(), fh, indent=1)
    return p
