#!/bin/bash
# developer helper: verify a seeded change  (usage: verify_seed.sh <PROP> <dir with patch.diff and demo.py>)
set -u
PROP=$1; DIR=$2; WT=/tmp/wt_verify_$$
git -C /repo worktree add --detach $WT HEAD -q || exit 2
run_demo() { (cd $WT && PYTHONPATH=$WT/src timeout 600 /venv/bin/python $DIR/demo.py >/tmp/demo_$$.log 2>&1; echo $?); }
A=$(run_demo)
if ! git -C $WT apply $DIR/patch.diff 2>/tmp/apply_$$.log; then
  if ! git -C $WT apply --3way $DIR/patch.diff 2>>/tmp/apply_$$.log; then echo "APPLY-FAILED"; cat /tmp/apply_$$.log; git -C /repo worktree remove --force $WT; exit 3; fi
fi
git -C $WT diff HEAD > /tmp/seed_rebased_$$.diff
B=$(run_demo); tail -2 /tmp/demo_$$.log
T=$(cd $WT && PYTHONPATH=$WT/src /venv/bin/python -m pytest -p no:cacheprovider -n 12 --timeout=900 --continue-on-collection-errors -q 2>&1 | tail -1 | sed 's/\x1b\[[0-9;]*m//g')
echo "demo without=$A with=$B tests: $T"
# checker on the scratch worktree with the change (same as applying the patch to /repo, without touching /repo)
(cd /verif && ./check $PROP --repo $WT --no-evidence | grep -v KNOWN | cut -c1-220; echo "check rc=${PIPESTATUS[0]}")
git -C /repo worktree remove --force $WT
cp /tmp/seed_rebased_$$.diff /tmp/seed_rebased_last.diff
