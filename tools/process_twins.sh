#!/bin/bash
# developer helper: verify a batch of twins (usage: process_twins.sh <suffix> C11 C12 …) → summary per twin; details in /tmp/seed_out/<P>_<suffix>/verify.log
SUF=$1; shift
for P in "$@"; do
  D=/tmp/seed_out/${P}_${SUF}
  if [ ! -f $D/patch.diff ]; then echo "$P-$SUF: no patch yet"; continue; fi
  /verif/tools/verify_twin.sh $P $D $NOTESTS > $D/verify.log 2>&1
  cp /tmp/seed_rebased_last.diff $D/rebased.diff 2>/dev/null
  echo "$P-$SUF: $(grep -o 'demo without=[0-9]* with=[0-9]*' $D/verify.log | tail -1) | $(grep -o 'tests: .*passed' $D/verify.log | tail -1 | cut -c1-40) | $(grep 'all-checks' $D/verify.log) | $(grep '^ALARM' $D/verify.log | tr '\n' ' ')"
done
