#!/bin/bash
# developer helper: st.sh C11 h "<detected_by>"  → store seed from /tmp/seed_out/C11_h and remove its worktree
P=$1; SUF=$2; DET=$3
D=/tmp/seed_out/${P}_${SUF}
cp $D/rebased.diff /tmp/seed_rebased_last.diff || exit 1
RAN="demo exit 0 on the clean tree and 1 with the change; suite with the change: 1 failed, 3664 passed, 2 skipped, 2 errors (= baseline)"
/venv/bin/python /verif/tools/store_seed.py $P-$SUF $P $D "$DET" "$RAN"
WT=/tmp/wt_$(echo $P | tr 'C' 'c')$SUF
git -C /repo worktree remove --force $WT 2>/dev/null; true
