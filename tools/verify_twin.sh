#!/bin/bash
# developer helper: verify a benign refactoring (twin)  (usage: verify_twin.sh <PROP> <dir with patch.diff and demo.py> [notests])
# demo must exit 0 with and without the change, the suite must pass, and ALL 20 checks must stay exit 0 on the changed tree
set -u
PROP=$1; DIR=$2; NOTESTS=${3:-}; WT=/tmp/wt_verify_$$
git -C /repo worktree add --detach $WT HEAD -q || exit 2
run_demo() { (cd $WT && PYTHONPATH=$WT/src timeout 600 /venv/bin/python $DIR/demo.py >/tmp/demo_$$.log 2>&1; echo $?); }
A=$(run_demo)
if ! git -C $WT apply $DIR/patch.diff 2>/tmp/apply_$$.log; then
  if ! git -C $WT apply --3way $DIR/patch.diff 2>>/tmp/apply_$$.log; then echo "APPLY-FAILED"; cat /tmp/apply_$$.log; git -C /repo worktree remove --force $WT; exit 3; fi
fi
git -C $WT diff HEAD > /tmp/seed_rebased_$$.diff
B=$(run_demo); tail -2 /tmp/demo_$$.log
if [ -z "$NOTESTS" ]; then
T=$(cd $WT && PYTHONPATH=$WT/src /venv/bin/python -m pytest -p no:cacheprovider -n 12 --timeout=900 --continue-on-collection-errors -q 2>&1 | tail -1 | sed 's/\x1b\[[0-9;]*m//g')
else T="skipped"; fi
echo "demo without=$A with=$B tests: $T"
cd /verif
for i in $(seq -w 1 20); do
  ( ./check C$i --repo $WT --no-evidence > /tmp/twin_$$_C$i.log 2>&1; echo "C$i rc=$?" > /tmp/twin_$$_C$i.rc ) &
done
wait
for i in $(seq -w 1 20); do
  RC=$(cat /tmp/twin_$$_C$i.rc)
  case "$RC" in *rc=0) ;; *) echo "ALARM $RC"; grep -v KNOWN /tmp/twin_$$_C$i.log | cut -c1-260 | head -12;; esac
done
echo "all-checks: $(cat /tmp/twin_$$_C*.rc | grep -c 'rc=0') of 20 exit 0"
rm -f /tmp/twin_$$_C*
git -C /repo worktree remove --force $WT
cp /tmp/seed_rebased_$$.diff /tmp/seed_rebased_last.diff
