"""Developer helper: run the rules on an alpha-renamed scratch copy of /repo and compare with the clean tree.

usage: PYTHONPATH=/verif /venv/bin/python tools/alpha_diff.py [C01 C02 ...]
A sound rule set reports the same (rule, symbol) multiset on both trees.
"""
import collections
import os
import shutil
import sys
import tempfile
import traceback

sys.path.insert(0, "/verif")
from sa.driver import analyse  # noqa: E402
from sa.index import AnalysisError  # noqa: E402
from sa.metamorph import alpha_rename_tree  # noqa: E402
from sa.selftest import _copy_tree  # noqa: E402


def run(prop, root):
    try:
        ctx, _ = analyse(prop, root, "quick")
        return collections.Counter((f.rule, f.symbol) for f in ctx.findings), None, ctx
    except AnalysisError as e:
        return None, f"ANALYSIS-ERROR {e}", None
    except Exception:
        return None, "CRASH " + traceback.format_exc()[-600:], None


def main():
    props = sys.argv[1:] or [f"C{i:02d}" for i in range(1, 21)]
    tmp = tempfile.mkdtemp(prefix="irpy-alpha-")
    try:
        _copy_tree("/repo", tmp)
        print(alpha_rename_tree(tmp))
        bad = 0
        for p in props:
            a, ea, _ = run(p, "/repo")
            b, eb, ctx = run(p, tmp)
            if ea or eb:
                print(p, "clean:", ea, "| alpha:", eb)
                bad += 1
                continue
            if a != b:
                bad += 1
                print(p, "DIFF")
                for k in sorted(set(a) | set(b)):
                    if a.get(k, 0) != b.get(k, 0):
                        print("   ", k, "clean", a.get(k, 0), "alpha", b.get(k, 0))
                        for f in ctx.findings:
                            if (f.rule, f.symbol) == k:
                                print("        ", f.construct[:150], "—", f.detail[:200])
            else:
                print(p, "same", sum(a.values()))
        print("properties differing:", bad)
    finally:
        if os.environ.get("KEEP_ALPHA"):
            print("kept", tmp)
        else:
            shutil.rmtree(tmp, ignore_errors=True)


main()
