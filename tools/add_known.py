"""Developer helper: append the current findings of a property to known_findings.json.
usage: add_known.py C20 'substring-of-symbol=input text' ...   (every finding must match one mapping)"""
import json, sys
sys.path.insert(0, "/verif")
from sa.driver import analyse
from sa.report import load_known, match_known
prop = sys.argv[1]
maps = [a.split("=", 1) for a in sys.argv[2:]]
ctx, _ = analyse(prop, "/repo", "quick")
data = json.load(open("/verif/known_findings.json"))
n = 0
for f in ctx.findings:
    if match_known(f, data["known"]):
        continue
    inp = next((v for k, v in maps if k in f.symbol or k in f.construct or k == f.rule), None)
    if inp is None:
        print("UNMAPPED", f.short()); continue
    data["known"].append({"property": f.prop, "rule": f.rule, "symbol": f.symbol, "construct": f.construct, "why": f.detail, "input": inp})
    n += 1
json.dump(data, open("/verif/known_findings.json", "w"), indent=1)
print("added", n)
