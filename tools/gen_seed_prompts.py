"""Developer helper: write /tmp/seed_out/prompt_<P>_<suffix>.txt for the given properties and create the worktrees.

usage: gen_seed_prompts.py <suffix> C01 C02 …
The prompt contains only the property text, the worktree path and one-line summaries of the seeds other agents already
produced for that property (so that a new seed is independent) - nothing about the checkers in /verif.
"""
import glob, json, os, subprocess, sys

suffix, props = sys.argv[1], sys.argv[2:]
P = {}
for l in open("/verif/properties.jsonl"):
    d = json.loads(l)
    P[d["id"]] = d
os.makedirs("/tmp/seed_out", exist_ok=True)
for p in props:
    d = P[p]
    wt = f"/tmp/wt_{p.lower()}{suffix}"
    out = f"/tmp/seed_out/{p}_{suffix}"
    os.makedirs(out, exist_ok=True)
    if not os.path.isdir(wt):
        subprocess.run(["git", "-C", "/repo", "worktree", "add", "-q", "--detach", wt, "HEAD"], check=True)
    tried = []
    for mf in sorted(glob.glob(f"/verif/seeded/{p}-*/meta.json")):
        s = json.load(open(mf)).get("summary", "")
        if s:
            tried.append("  - " + " ".join(s.split())[:230])
    tried_txt = ("NOTE: other testers have already seeded these bugs for this property:\n" + "\n".join(tried) + "\n"
                 "Pick a DIFFERENT site and mechanism (a different function, ideally a different file) and, if possible, a clause of the property statement that none of the seeds above touches, so that your seed is independent of all of them. Read the property statement clause by clause and look for the code behind a clause that has not been attacked yet. Prefer a kind of slip that is not in the list (for instance: a wrong default, an off-by-one boundary, a stale cache, an exception swallowed or raised too late, a sibling code path updated inconsistently, a missing case in a dispatch, a wrong variable of the right type, a condition inverted for one rare case, an `is`/`==` mix-up, a mutable default or shared class attribute, a generator consumed twice, an early return added for a 'trivial' case, a fast path that skips a step of the slow path, a comparison by name instead of identity or the reverse, state kept between calls).\n") if tried else ""
    txt = f"""You are helping test a verification effort for the Python library onnx/ir-py (an in-memory ONNX intermediate representation). You work ONLY inside the scratch git worktree {wt} (a checkout of the library; source is under {wt}/src/onnx_ir). Do NOT read, list or modify anything under /repo or /verif, and do not look for other people's checkers: your work must be independent.

PROPERTY ({p}): "{d['title']}"
{d['statement']}
(Quantified: {d['quantifier']['text']})

TASK: produce ONE realistic change (a "seeded bug") to the library source under {wt}/src/onnx_ir (not to tests) that BREAKS this property, while the library still imports and the EXISTING test suite still passes. The change must be subtle: it should need something specific to manifest — a particular multi-step sequence of operations, an unusual input, a fault/exception at a particular point, a particular interleaving, or two cooperating sites that each look fine alone — NOT something ordinary use or the existing tests would expose at once. It should look like a plausible refactoring slip or "optimisation" a maintainer could write, ideally 1-15 changed lines. Prefer changing behaviour in the mechanism that is supposed to make the property hold (read the code to find it) over deleting a whole feature.

{tried_txt}
STEPS:
1. Read the relevant source in {wt}/src/onnx_ir to understand the mechanism.
2. Make the change in {wt}.
3. Write a demonstration {out}/demo.py: a small standalone program (run as `cd {wt} && PYTHONPATH={wt}/src /venv/bin/python {out}/demo.py`) that exits non-zero (assertion failure) WITH your change and exits 0 WITHOUT it. Verify both. To test the pristine tree do NOT use `git stash` (the stash is shared between worktrees used by other people); instead: `git -C {wt} diff > {out}/patch.diff && git -C {wt} apply -R {out}/patch.diff` (now pristine) ... `git -C {wt} apply {out}/patch.diff` (change re-applied). The demo must check the property as stated (observable behaviour through the public API), not internals of your change.
4. Run the whole suite with your change applied: `cd {wt} && PYTHONPATH={wt}/src /venv/bin/python -m pytest -q -p no:cacheprovider --timeout=900 --continue-on-collection-errors -n 8 2>&1 | tail -5` (about 20-40 seconds). On the pristine tree this gives exactly `1 failed, 3664 passed, 2 skipped, 2 errors` (the failure and the 2 collection errors are about the missing optional package onnxscript and are expected). With your change it must give exactly the same numbers. NOTE: /venv has onnx_ir installed in editable mode pointing elsewhere, so you MUST set PYTHONPATH={wt}/src as shown so that your worktree's code is the one imported; verify with `PYTHONPATH={wt}/src /venv/bin/python -c "import onnx_ir; print(onnx_ir.__file__)"`.
5. Save `git -C {wt} diff > {out}/patch.diff` and write {out}/meta.json with keys: property, summary (what you changed), needs (what is required for the bug to manifest), files (changed files), tests_run (commands and results), demo_result_with_change, demo_result_without_change.
6. Leave the change applied in the worktree. Do not commit. Before finishing check that `git -C {wt} diff` contains only your own change.

If your first idea is caught by the existing tests, try another. If, while reading, you notice that the PRISTINE library already violates the property for some input, mention it briefly at the end (one or two lines with the input) - but still deliver a seeded change. Keep your final answer short: the summary, what it needs to manifest, and the test results."""
    open(f"/tmp/seed_out/prompt_{p}_{suffix}.txt", "w").write(txt)
    print(p, wt, len(tried), "earlier seeds listed")
