"""Validate MANIFEST.json and evidence files against the harness schemas (run with python3-vt)."""
import glob, json, sys
import jsonschema
ok = True
m = json.load(open("/verif/MANIFEST.json"))
jsonschema.validate(m, json.load(open("/root/.vp/MANIFEST.schema.json")))
es = json.load(open("/root/.vp/EVIDENCE.schema.json"))
for p in sorted(glob.glob("/verif/evidence/C*.json")):
    try:
        jsonschema.validate(json.load(open(p)), es)
    except Exception as e:
        ok = False
        print("INVALID", p, str(e)[:300])
claimed = {c["property_id"] for c in m["checks"]}
na = {c["property_id"] for c in m.get("not_applicable", [])}
allp = {json.loads(l)["id"] for l in open("/verif/properties.jsonl")}
assert claimed | na == allp and not (claimed & na), (claimed, na)
print("manifest ok; evidence", "ok" if ok else "BAD", "claimed", len(claimed))
sys.exit(0 if ok else 1)
