#!/bin/bash
# developer helper: verify a batch of seeds  (usage: process_batch.sh <suffix> C01 C02 …)  → one line per seed
SUF=$1; shift
for P in "$@"; do
  D=/tmp/seed_out/${P}_${SUF}
  if [ ! -f $D/patch.diff ]; then echo "$P-$SUF: no patch yet"; continue; fi
  OUT=$(/verif/tools/verify_seed.sh $P $D 2>&1)
  cp /tmp/seed_rebased_last.diff $D/rebased.diff 2>/dev/null
  DEMO=$(echo "$OUT" | grep -o "demo without=[0-9]* with=[0-9]*" | tail -1)
  TESTS=$(echo "$OUT" | grep -o "tests: .*passed" | tail -1 | cut -c1-40)
  RC=$(echo "$OUT" | grep -o "check rc=[0-9]*" | tail -1)
  RULES=$(echo "$OUT" | grep "^  R" | sed 's/^  \(R[0-9a-z]*\) \([^ ]*\) .*/\1@\2/' | sort -u | tr '\n' ' ' | cut -c1-200)
  echo "$P-$SUF: $DEMO | $TESTS | $RC | $RULES"
done
