"""Developer helper: store a verified benign refactoring under /verif/twins/<id>/ (usage: store_twin.py <id> <prop> <srcdir> <verdict text>)."""
import json, os, shutil, sys
sid, prop, src, verdict = sys.argv[1], sys.argv[2], sys.argv[3], sys.argv[4]
dst = f"/verif/twins/{sid}"
os.makedirs(dst, exist_ok=True)
shutil.copy("/tmp/seed_rebased_last.diff", f"{dst}/patch.diff")
shutil.copy(f"{src}/demo.py", f"{dst}/demo.py")
meta = {}
if os.path.exists(f"{src}/meta.json"):
    try:
        meta = json.load(open(f"{src}/meta.json"))
    except Exception:
        meta = {}
out = {
    "id": sid,
    "property": prop,
    "kind": "benign twin: behaviour-preserving refactoring of the mechanism behind the property; every check must stay silent on it",
    "summary": meta.get("summary", ""),
    "why_preserving": meta.get("why_preserving", ""),
    "files": meta.get("files", []),
    "origin": "independent sub-agent given only the property text and a scratch worktree",
    "verified_by_me": verdict,
    "apply": f"git -C /repo apply /verif/twins/{sid}/patch.diff   (undo: git -C /repo checkout -- .)",
}
json.dump(out, open(f"{dst}/meta.json", "w"), indent=1)
print("stored", dst)
