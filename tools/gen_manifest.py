"""Regenerate /verif/MANIFEST.json from the rule modules that exist (developer tool)."""

import importlib
import json
import os
import sys

sys.path.insert(0, "/verif")

BASELINE = (
    "cd /repo && /venv/bin/python -m pytest -ra -q -p no:cacheprovider --timeout=900 "
    "--continue-on-collection-errors"
)
ALL = [f"C{i:02d}" for i in range(1, 21)]

checks, na = [], []
for p in ALL:
    path = f"/verif/sa/rules/{p.lower()}.py"
    if not os.path.isfile(path):
        na.append({"property_id": p, "reason": "static check not built yet in this session (planned: DESIGN.md §4/§8); nothing is claimed for it"})
        continue
    mod = importlib.import_module(f"sa.rules.{p.lower()}")
    rules = "; ".join(f"{k}: {v}" for k, v in mod.RULES.items())
    checks.append(
        {
            "property_id": p,
            "quick_cmd": f"./check {p} --tier quick",
            "thorough_cmd": f"./check {p} --tier thorough",
            "evidence_file": f"/verif/evidence/{p}.json",
            "replay_cmd_template": f"./check {p} --replay {{path}}",
            "engine": "sa",
            "level_claimed": {
                "category": "other",
                "text": (
                    "Static analysis of /repo's current source (ast + own resolver/CFG/effect summaries): "
                    "decides, for every definition, call site and path of the anchored code, the structural "
                    "clauses listed here — necessary conditions of the property, not the behaviour itself. "
                    + rules
                ),
                "design_ref": f"DESIGN.md §4 {p}",
            },
            "level_note": (
                "Trusted base: the analyser in /verif/sa and its enumerated idiom tables; Python ast semantics; "
                "third-party code not analysed. Not decided: " + getattr(mod, "NOT_DECIDED", "")
            ),
            "technique": getattr(mod, "TECHNIQUE", "custom AST/CFG/call-graph static analysis (repo-specific rules)"),
        }
    )

manifest = {
    "version": 1,
    "setup_cmd": "/venv/bin/python -c \"import ast, networkx\" && chmod +x /verif/check",
    "hooks": {
        "guard": "ONNX_IR_PY_VERIF",
        "enable": "none needed: the analysis is source-only; no hook is compiled into /repo",
        "baseline_off_cmd": BASELINE,
        "source_commits": [],
        "add_only": True,
    },
    "engines": [
        {
            "name": "sa",
            "path": "/verif/sa",
            "serves_properties": [c["property_id"] for c in checks],
            "kind_free_text": "repo-specific static analyser: source index + MRO, type-resolved call graph, "
            "statement CFG with dominators, effect summaries, proto-schema reader; one rule module per property",
        }
    ],
    "checks": checks,
    "not_applicable": na,
    "notes": "All checks are static (never import or run onnx_ir). Exit 0 = every rule instance holds or is a listed "
    "known finding; exit 1 + VIOLATION line = an unlisted failing instance; exit 2 + ANALYSIS-ERROR = the analyser "
    "cannot give a verdict (vanished anchor, instance floor, self-test failure).",
}
with open("/verif/MANIFEST.json", "w") as f:
    json.dump(manifest, f, indent=1)
print(f"claimed={len(checks)} not_applicable={len(na)}")
