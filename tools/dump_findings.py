"""Developer helper (never run by a registered check): print current findings of a property as
candidate known_findings.json entries, to be triaged by hand."""
import json, sys
sys.path.insert(0, "/verif")
from sa.driver import analyse

prop = sys.argv[1]
ctx, mod = analyse(prop, sys.argv[2] if len(sys.argv) > 2 else "/repo", "quick")
print(json.dumps([
    {"property": f.prop, "rule": f.rule, "symbol": f.symbol, "construct": f.construct,
     "why": f.detail, "input": "TODO"} for f in ctx.findings], indent=1))
