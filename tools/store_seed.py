"""Developer helper: store a verified seeded change under /verif/seeded/<id>/."""
import json, os, shutil, sys
sid, prop, src, caught_by, ran = sys.argv[1], sys.argv[2], sys.argv[3], sys.argv[4], sys.argv[5]
dst = f"/verif/seeded/{sid}"
os.makedirs(dst, exist_ok=True)
shutil.copy("/tmp/seed_rebased_last.diff", f"{dst}/patch.diff")
shutil.copy(f"{src}/demo.py", f"{dst}/demo.py")
meta = {}
if os.path.exists(f"{src}/meta.json"):
    try:
        meta = json.load(open(f"{src}/meta.json"))
    except Exception:
        meta = {}
out = {
    "id": sid,
    "property": prop,
    "summary": meta.get("summary", ""),
    "needs_to_manifest": meta.get("needs", ""),
    "files": meta.get("files", []),
    "origin": "independent sub-agent given only the property text and a scratch worktree",
    "verified_by_me": ran,
    "detected_by": caught_by,
    "apply": f"git -C /repo apply /verif/seeded/{sid}/patch.diff   (undo: git -C /repo checkout -- .)",
    "demo": f"cd <tree> && PYTHONPATH=<tree>/src /venv/bin/python /verif/seeded/{sid}/demo.py  (exit 0 on the clean tree, 1 with the change)",
}
json.dump(out, open(f"{dst}/meta.json", "w"), indent=1)
print("stored", dst)
