"""Developer helper: write /tmp/seed_out/prompt_<P>_<suffix>.txt asking for a BEHAVIOUR-PRESERVING refactoring of the code
behind a property (a benign twin) and create the worktrees.

usage: gen_twin_prompts.py <suffix> C01 C02 …
The prompt contains only the property text and the worktree path - nothing about the checkers in /verif. The result is used
to test the checkers for false alarms: on a tree where the property still holds they must stay silent (exit 0).
"""
import glob, json, os, subprocess, sys

suffix, props = sys.argv[1], sys.argv[2:]
P = {}
for l in open("/verif/properties.jsonl"):
    d = json.loads(l)
    P[d["id"]] = d
os.makedirs("/tmp/seed_out", exist_ok=True)
for p in props:
    d = P[p]
    wt = f"/tmp/wt_{p.lower()}{suffix}"
    out = f"/tmp/seed_out/{p}_{suffix}"
    os.makedirs(out, exist_ok=True)
    if not os.path.isdir(wt):
        subprocess.run(["git", "-C", "/repo", "worktree", "add", "-q", "--detach", wt, "HEAD"], check=True)
    tried = []
    for mf in sorted(glob.glob(f"/verif/twins/{p}-*/meta.json")):
        s = json.load(open(mf)).get("summary", "")
        if s:
            tried.append("  - " + " ".join(s.split())[:230])
    tried_txt = ("NOTE: other people already delivered these refactorings for this property; pick DIFFERENT functions and a different kind of refactoring:\n" + "\n".join(tried) + "\n") if tried else ""
    txt = f"""You are helping test a verification effort for the Python library onnx/ir-py (an in-memory ONNX intermediate representation). You work ONLY inside the scratch git worktree {wt} (a checkout of the library; source is under {wt}/src/onnx_ir). Do NOT read, list or modify anything under /repo or /verif, and do not look for other people's checkers: your work must be independent.

PROPERTY ({p}): "{d['title']}"
{d['statement']}
(Quantified: {d['quantifier']['text']})

TASK: produce ONE realistic, strictly BEHAVIOUR-PRESERVING refactoring of the library source under {wt}/src/onnx_ir (not of tests), located in the code that implements the mechanism behind this property (read the code to find it). After your change the property must STILL HOLD for every input, history and schedule - not only for the tested ones - and every public API, signature, exception type and observable result must be exactly as before. It should be the kind of clean-up or restructuring a maintainer really does, 5-60 changed lines, touching the heart of the mechanism rather than its periphery. Combine two or three of, for example:
  - extract part of a function into a new private helper (or inline a private helper into its only caller);
  - rename a private function / private method / local variable / parameter of a private function (update all uses);
  - replace an if/elif chain by early returns or a dispatch table (or the reverse); invert a condition and swap the branches;
  - turn a loop into a comprehension / generator helper or the reverse; `for` + index into `enumerate`; merge or split loops when the order of effects provably does not matter;
  - reorder statements that are provably independent; hoist a loop-invariant computation;
  - move a private helper to another module of the package (keeping imports working) or turn a module-level helper into a static method;
  - replace a private data structure by an equivalent one (tuple vs list, dict vs two parallel lists) with all users updated;
  - introduce a small context manager / decorator for a repeated try/finally pattern, keeping exactly the same ordering of effects and the same behaviour on exceptions;
  - add type annotations, assertions that cannot fail, debug logging, docstrings.
Do NOT weaken anything: the same validation must happen at the same moment relative to state changes, the same files must be touched in the same order, the same locks held, and so on. If in doubt whether a step preserves behaviour on some rare input (exceptions raised half-way, duplicate elements, empty inputs, aliasing, re-entrancy), choose a different step.

{tried_txt}
STEPS:
1. Read the relevant source in {wt}/src/onnx_ir to understand the mechanism.
2. Make the change in {wt}.
3. Write {out}/demo.py: a small standalone program (run as `cd {wt} && PYTHONPATH={wt}/src /venv/bin/python {out}/demo.py`) that exercises the property through the public API in the area you changed, including at least one unusual input (a rejected call, duplicates, nesting, an empty input ...), and exits 0 both WITH and WITHOUT your change. Verify both. To test the pristine tree do NOT use `git stash`; instead: `git -C {wt} diff > {out}/patch.diff && git -C {wt} apply -R {out}/patch.diff` (now pristine) ... `git -C {wt} apply {out}/patch.diff` (change re-applied).
4. Run the whole suite with your change applied: `cd {wt} && PYTHONPATH={wt}/src /venv/bin/python -m pytest -q -p no:cacheprovider --timeout=900 --continue-on-collection-errors -n 8 2>&1 | tail -5` (about 20-40 seconds). On the pristine tree this gives exactly `1 failed, 3664 passed, 2 skipped, 2 errors` (the failure and the 2 collection errors are about the missing optional package onnxscript and are expected). With your change it must give exactly the same numbers. NOTE: /venv has onnx_ir installed in editable mode pointing elsewhere, so you MUST set PYTHONPATH={wt}/src as shown so that your worktree's code is the one imported; verify with `PYTHONPATH={wt}/src /venv/bin/python -c "import onnx_ir; print(onnx_ir.__file__)"`.
5. Save `git -C {wt} diff > {out}/patch.diff` and write {out}/meta.json with keys: property, summary (what you changed, function by function), why_preserving (the argument, per step, that behaviour is unchanged also on rare inputs), files (changed files), tests_run (commands and results).
6. Leave the change applied in the worktree. Do not commit. Before finishing check that `git -C {wt} diff` contains only your own change.

Keep your final answer short: the summary, the argument why behaviour is preserved, and the test results."""
    open(f"/tmp/seed_out/prompt_{p}_{suffix}.txt", "w").write(txt)
    print(p, wt, len(tried), "earlier twins listed")
