"""Developer helper: list known_findings.json entries that no longer match any finding on the current /repo;
with --fixed <commit> move them to the "fixed" list (never run by a registered check)."""
import json, sys
sys.path.insert(0, "/verif")
from sa.driver import analyse
args = sys.argv[1:]
commit = None
if "--fixed" in args:
    i = args.index("--fixed"); commit = args[i + 1]; del args[i:i + 2]
data = json.load(open("/verif/known_findings.json"))
props = args or sorted({k["property"] for k in data["known"]})
keep = []
for k in data["known"]:
    if k["property"] not in props:
        keep.append(k)
for p in props:
    ctx, _ = analyse(p, "/repo", "quick")
    keys = {(f.rule, f.symbol, f.construct) for f in ctx.findings}
    for k in [x for x in data["known"] if x["property"] == p]:
        if (k["rule"], k["symbol"], k["construct"]) in keys:
            keep.append(k)
        else:
            print("STALE", p, k["rule"], k["symbol"], "::", k["construct"][:90])
            if commit:
                data["fixed"].append(f"fixed: property={p} {commit} {k['rule']} {k['symbol']} :: {k['construct']} — {k['input']}")
if commit:
    data["known"] = keep
    json.dump(data, open("/verif/known_findings.json", "w"), indent=1)
    print("moved to fixed with", commit)
