#!/bin/sh
# developer helper: run the self-test of some properties
cd /verif
for p in "$@"; do PYTHONPATH=/verif /venv/bin/python -c "
import sys
from sa import selftest
from sa.index import AnalysisError
try:
    r = selftest.run('$p', '/repo')
    print('$p selftest ok', r.get('variants'))
except AnalysisError as e:
    print('$p SELFTEST FAIL:', e)
"; done
